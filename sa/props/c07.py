"""C07 - Anonymized overlays never send from the node's own address."""
from __future__ import annotations

import ast

from ..core import Ctx
from ..match import (Fact, _atoms_with_polarity, arg, call_name, calls, expr_context_facts, fact_of, facts_at, is_param,
                     local_defs, resolve, single_def, stores)
from ..model import (NOCONST, AnalysisError, ancestors, chain, const_value, enclosing_function, enclosing_stmt, parent, strip_cast,
                     walk_no_nested)

LEVEL = "other"
EXPLANATION = (
    "TunnelEndpoint.send depends on history only through its branch conditions, so classifying every effect site by "
    "the branch edges that every path to it must take decides all histories: the raw socket send is reachable only "
    "over an edge on which the anonymity switch of packet[:22] is off (settings.get(prefix, False) falsy, prefix not "
    "in settings, settings[prefix] falsy); tunnel sends only with the switch on and over a circuit that was drawn from "
    "find_circuits(exit_flags=[PEER_FLAG_EXIT_IPV8], hops=self.hops) and tested READY after its last definition; "
    "otherwise queue (bounded deque) or drop. All acyclic paths are enumerated and classified. When send (or the "
    "constructor opt-in, set_anonymity, the delivery filter, Circuit.exit_flags) is not in the reviewed shape, the same "
    "conditions are decided by symbolic execution of every path through the function, its private helpers, closures, "
    "generators and dispatch tables (values and tested facts per path; no statement positions), including lazy itertools / "
    "functools / operator pipelines and callables (judged where they are iterated / called), objects of private classes of the "
    "module used in place of closures, `except KeyError` / contextlib.suppress exits (a KeyError of table[key] means no entry) and "
    "staged filters (judged together at the return). A function under a private decorator `@d` / `@d(args)` denotes the wrapper d "
    "returns: the decorator is executed on the body and wrapper + body are analysed as one function (send, set_anonymity, "
    "notify_listeners and every followed helper); helpers that moved to another module or to a mixin base class are followed with "
    "their parameters bound; `self.tunnel_community` / `self.hops` defined as read-only properties over a state-holder object denote "
    "what their getters return, and methods of a holder whose class is certain (every store of the field is `self.f = Ctor(...)` of one "
    "class without subclasses) are executed; sizes derived by len() / struct.calcsize / Struct.size / digest_size are folded; "
    "all((a, b, ..)) / any([..]) over a literal is the and- / or-chain of its elements. A handler that names only PRIVATE exception "
    "classes (pure exception classes whose name or module starts with an underscore and whose every spelling in the repository is the "
    "definition, `raise X` / `raise X(..)`, an except type or a from-import; handlers only read fields of the object) is entered only "
    "from `raise` statements the execution reached itself, with the facts of that path - provided every function out of which such an "
    "exception can propagate is a plain synchronous function whose name is only ever the callee of a direct call and every call by "
    "those names was entered (checked after the run; otherwise the over-approximation `any statement of the try may reach any "
    "handler` is kept). Objects of private plain classes / non-frozen dataclasses made by the executed code have an identity: a "
    "field store is seen by later reads through every alias on that path, and once the object was handed to code that is not executed "
    "its fields are unknown. Every completing path of Community.__init__ "
    "on which settings.anonymize was tested truthy either calls set_anonymity(self._prefix, True) on self.endpoint or failed a pure type "
    "test of self.endpoint. Closed caller sets: raw "
    "endpoint.send inside TunnelEndpoint (or in helpers only send reaches), no `.endpoint.endpoint` / "
    "getattr(endpoint, 'endpoint') reach-under, set_anonymity writers, opt-in in Community.__init__, delivery filter; "
    "Circuit.exit_flags reads the flags of the last hop; find_circuits admits a circuit only if exit_flags is None or "
    "set(exit_flags) <= set(c.exit_flags), and hops is None or hops == c.goal_hops."
)

EP = "ipv8/messaging/anonymization/endpoint.py"
TUNNEL = "ipv8/messaging/anonymization/tunnel.py"

ON, OFF = "on", "off"

import os as _os

_FORCE_PATHS = bool(_os.environ.get("C07_FORCE_PATHS"))     # testing aid: decide by symbolic paths even where the reviewed shape is recognised

# calls that neither send nor store anything
_PURE = {"bool", "len", "isinstance", "next", "iter", "list", "tuple", "set", "getattr", "hasattr", "cast", "reversed", "sorted",
         "self.settings.get"}
_LOG_PREFIX = ("self.logger.", "self._logger.", "logger.", "logging.")
_MUTATORS = {"append", "extend", "insert", "remove", "pop", "clear", "sort", "reverse", "add", "discard", "update", "__setitem__",
             "__delitem__"}


# ------------------------------------------------------------------------------------ small semantic helpers
def _achain(fi, e, depth: int = 6) -> str | None:
    """dotted chain of a Name/Attribute expression after following single-assignment locals that alias a Name/Attribute chain"""
    if e is None:
        return None
    e = strip_cast(e)
    if isinstance(e, ast.Name):
        d = single_def(fi, e.id)
        if depth > 0 and d is not None and d[1] is None and isinstance(strip_cast(d[0]), (ast.Name, ast.Attribute)):
            return _achain(fi, d[0], depth - 1)
        return e.id
    if isinstance(e, ast.Attribute):
        b = _achain(fi, e.value, depth)
        return None if b is None else b + "." + e.attr
    return None


def _unbool(e):
    """bool(x) has the truth value of x"""
    e = strip_cast(e)
    while isinstance(e, ast.Call) and isinstance(e.func, ast.Name) and e.func.id == "bool" and len(e.args) == 1 and not e.keywords:
        e = strip_cast(e.args[0])
    return e


def _is_none(e) -> bool:
    return isinstance(e, ast.Constant) and e.value is None


def _falsy_default(e) -> bool:
    return isinstance(e, ast.Constant) and (e.value is None or e.value is False or (type(e.value) is int and e.value == 0))


_DIGEST_SIZES = {"md5": 16, "sha1": 20, "sha224": 28, "sha256": 32, "sha384": 48, "sha512": 64, "sha3_224": 28, "sha3_256": 32,
                 "sha3_384": 48, "sha3_512": 64, "blake2s": 32, "blake2b": 64}


def _fold(repo, module, e, cls=None, depth: int = 8):
    """
    The number / bytes / text a constant expression evaluates to (NOCONST when it is not one): literals, module and class constants,
    arithmetic, and the usual ways to DERIVE a size instead of writing it: len(<constant>), struct.calcsize(fmt), Struct(fmt).size,
    hashlib.<algorithm>().digest_size.
    """
    if e is None or depth <= 0:
        return NOCONST
    e = strip_cast(e)
    v = const_value(e)
    if v is not NOCONST:
        return v
    if isinstance(e, ast.Name):
        r = repo.resolve_name(module, e.id)
        if isinstance(r, tuple) and len(r) == 3 and r[0] == "const":
            return _fold(repo, r[1], r[2], None, depth - 1)
        return NOCONST
    if isinstance(e, ast.UnaryOp) and isinstance(e.op, (ast.USub, ast.UAdd)):
        x = _fold(repo, module, e.operand, cls, depth - 1)
        return NOCONST if x is NOCONST or not isinstance(x, (int, float)) or isinstance(x, bool) else (-x if isinstance(e.op, ast.USub) else x)
    if isinstance(e, ast.BinOp):
        l, r = _fold(repo, module, e.left, cls, depth - 1), _fold(repo, module, e.right, cls, depth - 1)
        if l is NOCONST or r is NOCONST:
            return NOCONST
        try:
            if isinstance(e.op, ast.Add):
                return l + r
            if isinstance(e.op, ast.Sub):
                return l - r
            if isinstance(e.op, ast.Mult) and (isinstance(l, int) and isinstance(r, int) or max(abs(l) if isinstance(l, int) else 0, abs(r) if isinstance(r, int) else 0) < 4096):
                return l * r
            if isinstance(e.op, ast.FloorDiv):
                return l // r
            if isinstance(e.op, ast.LShift) and isinstance(r, int) and 0 <= r < 64:
                return l << r
            if isinstance(e.op, ast.BitOr):
                return l | r
        except Exception:  # noqa: BLE001
            return NOCONST
        return NOCONST
    if isinstance(e, ast.Call) and not e.keywords and not any(isinstance(a, ast.Starred) for a in e.args):
        name = (chain(e.func) or "").split(".")[-1]
        if name == "len" and len(e.args) == 1:
            x = _fold(repo, module, e.args[0], cls, depth - 1)
            return len(x) if isinstance(x, (bytes, str, tuple, list)) else NOCONST
        if name == "calcsize" and len(e.args) == 1:
            fmt = _fold(repo, module, e.args[0], cls, depth - 1)
            if isinstance(fmt, (str, bytes)):
                import struct as _struct
                try:
                    return _struct.calcsize(fmt)
                except _struct.error:
                    return NOCONST
        return NOCONST
    if isinstance(e, ast.Attribute):
        base = strip_cast(e.value)
        if isinstance(base, ast.Name):
            r = repo.resolve_name(module, base.id)
            if isinstance(r, tuple) and len(r) == 3 and r[0] == "const":
                return _fold(repo, r[1], ast.Attribute(value=r[2], attr=e.attr, ctx=ast.Load()), None, depth - 1)
        if isinstance(base, ast.Call) and not base.keywords:
            name = (chain(base.func) or "").split(".")[-1]
            if e.attr == "size" and name == "Struct" and len(base.args) == 1:
                return _fold(repo, module, ast.Call(func=ast.Name(id="calcsize", ctx=ast.Load()), args=[base.args[0]], keywords=[]), cls, depth - 1)
            if e.attr == "digest_size" and name in _DIGEST_SIZES and len(base.args) <= 1:
                return _DIGEST_SIZES[name]
        try:
            return repo.resolve_const(module, e, cls)
        except Exception:  # noqa: BLE001
            return NOCONST
    if isinstance(e, (ast.Tuple, ast.List)):
        vals = [_fold(repo, module, x, cls, depth - 1) for x in e.elts]
        return NOCONST if any(x is NOCONST for x in vals) else (tuple(vals) if isinstance(e, ast.Tuple) else vals)
    return NOCONST


def _mutated(fi, name: str) -> bool:
    """is the local `name` changed in place (method call / item store / augmented assignment)"""
    for n in walk_no_nested(fi.node):
        if isinstance(n, ast.Call) and isinstance(n.func, ast.Attribute) and isinstance(n.func.value, ast.Name) \
                and n.func.value.id == name and n.func.attr in _MUTATORS:
            return True
        if isinstance(n, ast.Subscript) and isinstance(n.ctx, (ast.Store, ast.Del)) and isinstance(n.value, ast.Name) and n.value.id == name:
            return True
        if isinstance(n, ast.AugAssign) and isinstance(n.target, ast.Name) and n.target.id == name:
            return True
    return False


def _all_of(vals):
    s = set(vals) - {None}
    return s.pop() if len(s) == 1 else None


def _expand(fi, facts: list[Fact], depth: int = 3) -> list[Fact]:
    """facts plus what they imply when a tested local is a single-assignment boolean expression (`ok = a and b; if ok:`)"""
    out = []
    for f in facts:
        out.append(f)
        if f.op != "truthy" or depth <= 0:
            continue
        x = _unbool(f.left)
        if isinstance(x, ast.Name):
            d = single_def(fi, x.id)
            v = _unbool(d[0]) if d is not None and d[1] is None else None
            if isinstance(v, (ast.BoolOp, ast.UnaryOp, ast.Compare)):
                out.extend(_expand(fi, _atoms_with_polarity(v, f.pos), depth - 1))
        elif x is not f.left:
            out.extend(_expand(fi, _atoms_with_polarity(x, f.pos), depth - 1))
    return out


def _edge_facts(fi, u, lab) -> list[Fact]:
    if u.kind != "cond" or not (lab is True or lab is False):
        return []
    return _expand(fi, _atoms_with_polarity(u.ast, lab))


def _nodes(cfg, site):
    return [n for n in cfg.nodes_for(site) if cfg.reachable(n)]


class _Switch:
    """
    Recognises reads of the anonymity switch of *this* packet: self.settings.get(K[, falsy default]) / self.settings[K] /
    K in self.settings with K = packet[:22], through local aliases, bool(), negation and and/or combinations.
    """

    def __init__(self, fi, packet: str) -> None:
        self.fi = fi
        self.packet = packet
        self.alias_stmts: list[ast.stmt] = []   # definitions of the locals through which the switch is read

    def _follow(self, e):
        e = strip_cast(e)
        sts = []
        n = 0
        while isinstance(e, ast.Name) and n < 4:
            d = single_def(self.fi, e.id)
            if d is None or d[1] is not None:
                break
            sts.append(local_defs(self.fi, e.id)[0][0])
            e = strip_cast(d[0])
            n += 1
        return e, sts

    def _commit(self, sts) -> None:
        for st in sts:
            if st not in self.alias_stmts:
                self.alias_stmts.append(st)

    def is_key(self, e) -> bool:
        k, sts = self._follow(e)
        if not (isinstance(k, ast.Subscript) and isinstance(k.slice, ast.Slice)):
            return False
        s = k.slice
        ok = _achain(self.fi, k.value) == self.packet and (s.lower is None or const_value(s.lower) == 0) \
            and s.upper is not None and const_value(s.upper) == 22 and (s.step is None or const_value(s.step) == 1)
        if ok:
            self._commit(sts)
        return ok

    def is_table(self, e) -> bool:
        return _achain(self.fi, e) == "self.settings"

    def read(self, e) -> bool:
        e = _unbool(e)
        if isinstance(e, ast.Name):
            r, sts = self._follow(e)
            if r is not e and not isinstance(r, ast.Name) and self.read(r):
                self._commit(sts)
                return True
            return False
        if isinstance(e, ast.Call) and isinstance(e.func, ast.Attribute) and e.func.attr == "get" and self.is_table(e.func.value) \
                and not e.keywords and 1 <= len(e.args) <= 2 and not any(isinstance(a, ast.Starred) for a in e.args):
            return self.is_key(e.args[0]) and (len(e.args) == 1 or _falsy_default(e.args[1]))
        if isinstance(e, ast.Subscript) and isinstance(e.ctx, ast.Load) and self.is_table(e.value):
            return self.is_key(e.slice)
        return False

    def fact_val(self, f: Fact, depth: int = 3):
        """ON / OFF when the fact decides the switch, None otherwise"""
        if f.op == "truthy":
            x = _unbool(f.left)
            if self.read(x):
                return ON if f.pos else OFF
            if isinstance(x, ast.Name) and depth > 0:
                r, sts = self._follow(x)
                if isinstance(r, (ast.BoolOp, ast.UnaryOp, ast.Compare)):
                    v = self.implies(r, f.pos, depth - 1)
                    if v is not None:
                        self._commit(sts)
                    return v
            return None
        if f.op == "in":
            if not f.pos and self.is_key(f.left) and self.is_table(f.right):
                return OFF          # no entry: get(..., falsy) is falsy
            return None
        if f.op in ("is", "eq") and f.pos:
            for a, b in ((f.left, f.right), (f.right, f.left)):
                if isinstance(b, ast.Constant) and isinstance(b.value, bool) and self.read(a):
                    return ON if b.value else OFF
        return None

    def implies(self, e, pol: bool, depth: int = 3):
        """value of the switch implied by `e` being truthy (pol) / falsy (not pol), short-circuit order respected"""
        e = _unbool(e)
        if isinstance(e, ast.UnaryOp) and isinstance(e.op, ast.Not):
            return self.implies(e.operand, not pol, depth)
        if isinstance(e, ast.BoolOp):
            if isinstance(e.op, ast.And) == pol:      # `and` known true / `or` known false: every operand has that value
                return _all_of([self.implies(v, pol, depth) for v in e.values])
            alts = []
            for i, v in enumerate(e.values):          # operand i decided it: all earlier ones had the other value
                alts.append(_all_of([self.implies(w, not pol, depth) for w in e.values[:i]] + [self.implies(v, pol, depth)]))
            return alts[0] if alts and all(a == alts[0] for a in alts) else None
        return self.fact_val(fact_of(e, pol), depth)

    def edge(self, u, lab):
        if u.kind != "cond" or not (lab is True or lab is False):
            return None
        return self.implies(u.ast, lab)

    def dominated(self, cfg, site, want: str) -> bool:
        """every path entry -> site takes an edge on which the switch is `want` (or the expression context says so)"""
        if any(self.fact_val(f) == want for f in expr_context_facts(site)):
            return True
        ns = _nodes(cfg, site)
        return all(cfg.must_pass_edges(n, lambda u, v, lab: self.edge(u, lab) == want) for n in ns)


class _Source:
    """Is a circuit variable drawn (only) from find_circuits(exit_flags ⊇ [PEER_FLAG_EXIT_IPV8], hops=self.hops) of the tunnel overlay?"""

    SIG = ["ctype", "state", "exit_flags", "hops"]

    def __init__(self, fi) -> None:
        self.fi = fi
        self.finds = 0

    def pick(self, e, depth: int = 6) -> bool:
        e = strip_cast(e)
        if depth <= 0:
            return False
        if _is_none(e):
            return True
        if isinstance(e, ast.IfExp):
            return self.pick(e.body, depth - 1) and self.pick(e.orelse, depth - 1)
        if isinstance(e, ast.Subscript) and not isinstance(e.slice, ast.Slice) and isinstance(const_value(e.slice), int):
            return self.lst(e.value, depth - 1)
        if isinstance(e, ast.Call) and chain(e.func) == "next" and not e.keywords and 1 <= len(e.args) <= 2 \
                and (len(e.args) == 1 or _is_none(e.args[1])):
            it = strip_cast(e.args[0])
            if isinstance(it, ast.Call) and chain(it.func) == "iter" and len(it.args) == 1:
                return self.lst(it.args[0], depth - 1)
            return False
        if isinstance(e, ast.Name):
            return self.name_pick(e.id, depth - 1)
        return False

    def name_pick(self, name: str, depth: int) -> bool:
        if is_param(self.fi, name):
            return False
        defs = local_defs(self.fi, name)
        if not defs:
            return False
        for st, v, idx in defs:
            if idx is not None:
                return False
            if v is None:
                if isinstance(st, ast.For) and isinstance(st.target, ast.Name) and st.target.id == name and self.lst(st.iter, depth):
                    continue
                return False
            if not self.pick(v, depth):
                return False
        return True

    def lst(self, e, depth: int) -> bool:
        e = strip_cast(e)
        if depth <= 0:
            return False
        if isinstance(e, (ast.List, ast.Tuple)) and not e.elts:
            return True
        if isinstance(e, ast.BoolOp):
            return all(self.lst(v, depth - 1) for v in e.values)
        if isinstance(e, ast.IfExp):
            return self.lst(e.body, depth - 1) and self.lst(e.orelse, depth - 1)
        if isinstance(e, ast.Subscript) and isinstance(e.slice, ast.Slice):
            return self.lst(e.value, depth - 1)
        if isinstance(e, ast.Call):
            if call_name(e) == "find_circuits" and isinstance(e.func, ast.Attribute):
                return self.find_ok(e)
            if chain(e.func) in ("list", "tuple", "sorted", "reversed") and e.args:
                return self.lst(e.args[0], depth - 1)
            return False
        if isinstance(e, ast.Name):
            if is_param(self.fi, e.id) or _mutated(self.fi, e.id):
                return False
            defs = local_defs(self.fi, e.id)
            return bool(defs) and all(idx is None and v is not None and self.lst(v, depth - 1) for _, v, idx in defs)
        return False

    def find_ok(self, fc: ast.Call) -> bool:
        fi = self.fi
        if any(isinstance(a, ast.Starred) for a in fc.args) or any(k.arg is None for k in fc.keywords):
            return False

        def a(name):
            return arg(fc, self.SIG.index(name), name)
        ef = a("exit_flags")
        if isinstance(strip_cast(ef), ast.Name) if ef is not None else False:
            if _mutated(fi, strip_cast(ef).id):
                return False
            ef = resolve(fi, ef)
        ef_ok = isinstance(ef, (ast.List, ast.Tuple, ast.Set)) and any(_achain(fi, x) == "PEER_FLAG_EXIT_IPV8" for x in ef.elts)
        hp_ok = _achain(fi, a("hops")) == "self.hops"
        ct = a("ctype")
        ct_ok = ct is None or _achain(fi, ct) == "CIRCUIT_TYPE_DATA"
        recv_ok = _achain(fi, fc.func.value) == "self.tunnel_community"
        ok = bool(ef_ok and hp_ok and ct_ok and recv_ok)
        if ok:
            self.finds += 1
        return ok


def _queue_nonempty_fact(fi, f: Fact) -> bool:
    """does the fact say that self.send_queue is not empty"""
    def is_q(e):
        return _achain(fi, e) == "self.send_queue"

    def is_len(e):
        e = strip_cast(e)
        return isinstance(e, ast.Call) and chain(e.func) == "len" and len(e.args) == 1 and not e.keywords and is_q(e.args[0])
    if f.op == "truthy":
        return f.pos and (is_q(_unbool(f.left)) or is_len(_unbool(f.left)))
    if f.op == "lt":
        return (f.pos and const_value(f.left) == 0 and is_len(f.right)) or (not f.pos and is_len(f.left) and const_value(f.right) == 1)
    if f.op == "eq":
        return not f.pos and ((is_len(f.left) and const_value(f.right) == 0) or (is_len(f.right) and const_value(f.left) == 0))
    return False


def _raw_helpers(repo, te) -> dict:
    """
    Private TunnelEndpoint methods (other than send) that hand two of their own, never rebound, parameters to the raw socket
    and are called from TunnelEndpoint.send only: name -> (FuncInfo, (index of the address param, index of the packet param)).
    Their call sites in send are judged exactly like a raw send there.
    """
    out = {}
    for name, hf in te.methods.items():
        if name == "send" or not name.startswith("_") or name.startswith("__"):
            continue
        rc = calls(hf, "self.endpoint.send")
        if not rc:
            continue
        callers = [f for _, f, _ in repo.callers_of_name(name)]
        if not callers or any(f is None or f.qualname != "TunnelEndpoint.send" for f in callers):
            continue
        ps = hf.params()
        idx = set()
        for c in rc:
            a0, a1 = _achain(hf, arg(c, 0, "socket_address")), _achain(hf, arg(c, 1, "packet"))
            if a0 in ps and a1 in ps and not local_defs(hf, a0) and not local_defs(hf, a1):
                idx.add((ps.index(a0), ps.index(a1)))
            else:
                idx.add(None)
        if len(idx) == 1 and None not in idx:
            out[name] = (hf, idx.pop())
    return out


def _helper_arg(hf, call: ast.Call, pindex: int):
    """expression bound to parameter #pindex (0 = self) of method hf at `self.hf(...)`"""
    return arg(call, pindex - 1, hf.params()[pindex])


def _effects(te, hf, seen: frozenset) -> set:
    """kinds of send / queue / table effects a TunnelEndpoint method can have (transitively through self.<method> calls)"""
    out = set()
    for c in calls(hf):
        ch = _achain(hf, c.func) or chain(c.func) or ""
        nm = call_name(c)
        if ch == "self.endpoint.send":
            out.add("RAW")
        elif nm == "send_data":
            out.add("TUNNEL")
        elif nm in ("find_circuits", "create_circuit"):
            out.add("CIRCUIT")
        elif ch in _PURE or ch.startswith(_LOG_PREFIX):
            continue
        elif ch.startswith("self.send_queue."):
            out.add("QUEUE")
        elif ch.startswith("self.settings."):
            out.add("TABLE")
        elif ch.startswith("self.") and ch.count(".") == 1 and nm in te.methods:
            if nm not in seen:
                out |= _effects(te, te.methods[nm], seen | {nm})
        else:
            out.add("OTHER " + ch)
    if stores(hf, lambda c_: c_.startswith("self.")):
        out.add("STORE")
    return out


# ------------------------------------------------------------------------------------ symbolic path interpreter
# When the reviewed shape of a function is not recognised (decisions moved into helpers that cannot be inlined, flags and
# tuples carrying a decision, closures, dispatch tables, fused loops) the rules fall back to executing the function
# symbolically on every path of its CFG: locals hold symbolic values, every branch taken records the truth value of the
# tested value, calls of private helpers / local closures / generators are followed with their parameters bound to the
# caller's values, and each effect (raw send, tunnel send, queue, table write ...) is judged against the values and the
# tests of the path it lies on.  A verdict needs no particular statement order, nesting or spelling; what cannot be
# evaluated raises _Und (reported as "undecided", never as a verdict).
class _Und(Exception):
    """the symbolic interpreter cannot decide this shape"""


_SELF = ("param", "self")
_NONE = ("const", None)
_STAR = ("*unknown*",)          # an argument list of unknown length (`f(*xs)` with xs not a literal)
_CMP = {ast.Eq: "eq", ast.NotEq: "ne", ast.Is: "is", ast.IsNot: "isnot", ast.In: "in", ast.NotIn: "notin",
        ast.Lt: "lt", ast.LtE: "le", ast.Gt: "gt", ast.GtE: "ge"}
_PURE_BUILTINS = {"len", "isinstance", "issubclass", "hasattr", "callable", "id", "repr", "str", "bytes", "int", "float", "set",
                  "frozenset", "dict", "min", "max", "sum", "abs", "any", "all", "zip", "enumerate", "range", "type", "hash",
                  "divmod", "ord", "chr", "hexlify", "unhexlify", "format", "round", "bytearray", "memoryview", "slice", "map",
                  "filter", "print"}
_NEVER_NONE = {"len", "isinstance", "issubclass", "hasattr", "callable", "id", "repr", "str", "bytes", "int", "float", "set", "frozenset", "dict",
               "sum", "abs", "any", "all", "zip", "enumerate", "range", "type", "hash", "divmod", "ord", "chr", "hexlify", "unhexlify", "format",
               "round", "bytearray", "memoryview", "slice", "map", "filter", "list", "tuple", "sorted", "reversed", "deque", "bool"}
_SAME_ELEMENTS = {"list", "tuple", "sorted", "reversed", "iter", "deque"}
# values built by itertools / functools / operator (lazy iterators and callables): always truthy, never None
_PIPE_TAGS = {"chained", "chainfrom", "islice", "takewhile", "dropwhile", "filterfalse", "mapped", "starmapped", "accumulated", "filtered",
              "partial", "itemgetter", "attrgetter", "methodcaller", "itercall"}
_CALLABLE_TAGS = ("closure", "func", "bound", "attr", "record", "partial", "itemgetter", "attrgetter", "methodcaller")
_STD_MODULES = ("itertools", "functools", "operator", "contextlib")
_OP_CMP = {"eq": "eq", "ne": "ne", "lt": "lt", "le": "le", "gt": "gt", "ge": "ge", "is_": "is", "is_not": "isnot"}
_PURE_METHODS = {"get", "keys", "values", "items", "copy", "startswith", "endswith", "index", "count", "join", "split", "format",
                 "encode", "decode", "hex", "lower", "upper", "strip", "issubset", "issuperset", "union", "intersection",
                 "difference", "isdisjoint", "done", "result", "to_bytes", "from_bytes"}


# exception classes of the language: constructing one stores its arguments and does nothing else
_BUILTIN_EXCEPTIONS = {"BaseException", "Exception", "ArithmeticError", "AssertionError", "AttributeError", "BufferError", "EOFError",
                       "IndexError", "KeyError", "LookupError", "NotImplementedError", "OverflowError", "RuntimeError", "StopIteration",
                       "TypeError", "ValueError", "ZeroDivisionError", "UnicodeError", "OSError", "TimeoutError", "ConnectionError"}


def _strip(v):
    """the value without heap epochs (two reads of the same field are the same field)"""
    if type(v) is tuple and v:
        if v[0] == "const":
            return v
        if v[0] == "attr":
            return ("attr", _strip(v[1]), v[2])
        if v[0] == "pcall":
            return ("pcall", _strip(v[1]), _strip(v[2]))
        return tuple(_strip(x) for x in v)
    return v


def _vrepr(v) -> str:
    """a cheap total order key for values (repr of the model objects inside them would print the whole repository)"""
    if type(v) is tuple:
        return "(" + ",".join(_vrepr(x) for x in v) + ")"
    if v is None or isinstance(v, (str, bytes, int, float, bool)):
        return repr(v)
    return f"<{type(v).__name__}@{id(v)}>"


def _vchain(v) -> str | None:
    """dotted name of a stripped value made of parameters / globals / attribute reads"""
    if type(v) is not tuple or not v:
        return None
    if v[0] in ("param", "global"):
        return v[1]
    if v[0] == "attr":
        b = _vchain(v[1])
        return None if b is None else b + "." + v[2]
    return None


def _static_value(x):
    """symbolic value of an expression made of constants, global names, attribute chains and tuples of those (immutable, no calls); else None"""
    if isinstance(x, ast.Constant):
        return ("const", x.value)
    if isinstance(x, ast.Name):
        return ("global", x.id)
    if isinstance(x, ast.Attribute):
        b = _static_value(x.value)
        return ("attr", b, x.attr) if b is not None and b[0] in ("global", "attr") else None
    if isinstance(x, ast.Tuple):
        vs = [_static_value(y) for y in x.elts]
        return None if any(y is None for y in vs) else ("tuple", tuple(vs))
    return None


def _local_container(v) -> bool:
    """a list / dict / set / deque that was built by the code being executed"""
    return v[0] in ("list", "dict", "set", "local", "comp") or \
        (v[0] == "pcall" and v[1] in (("global", "list"), ("global", "dict"), ("global", "set"), ("global", "deque"), ("global", "bytearray")))


class _Frame:
    __slots__ = ("fi", "env", "visits", "iters", "collect", "captured")

    def __init__(self, fi, env=None, collect=None, captured=None) -> None:
        self.fi = fi
        self.env = {} if env is None else env
        self.visits = {}
        self.iters = {}
        self.collect = collect
        self.captured = captured        # names of the defining scopes as they were when this closure was made (used once those scopes returned)

    def copy(self):
        f = _Frame(self.fi, dict(self.env), self.collect, self.captured)
        f.visits = dict(self.visits)
        f.iters = dict(self.iters)
        return f


class _St:
    __slots__ = ("frames", "heap", "facts", "events", "effects", "epoch", "qver", "ret", "objs", "exc_from", "exc_value")

    def __init__(self) -> None:
        self.frames = []
        self.heap = {}
        self.objs = {}          # fields of objects the executed code itself created: (object, field) -> value
        self.exc_from = None    # the statement / condition that was left by an exception (until a handler is entered)
        self.exc_value = None   # the value of the `raise` statement whose exception is propagating (until the next statement / handler)
        self.facts = {}
        self.events = []
        self.effects = []
        self.epoch = 0
        self.qver = 0
        self.ret = _NONE

    def fork(self):
        n = _St()
        n.frames = [f.copy() for f in self.frames]
        n.heap = dict(self.heap)
        n.objs = dict(self.objs)
        n.exc_from = self.exc_from
        n.exc_value = self.exc_value
        n.facts = dict(self.facts)
        n.events = list(self.events)
        n.effects = list(self.effects)
        n.epoch = self.epoch
        n.qver = self.qver
        n.ret = self.ret
        return n


class _Event:
    __slots__ = ("kind", "node", "fi", "ok", "why", "facts")

    def __init__(self, kind, node, fi, ok, why="", facts=()) -> None:
        self.kind, self.node, self.fi, self.ok, self.why, self.facts = kind, node, fi, ok, why, facts


def _stored_names(nodes) -> set[str]:
    out = set()
    for n in nodes:
        for x in walk_no_nested(n):
            if isinstance(x, ast.Name) and isinstance(x.ctx, (ast.Store, ast.Del)):
                out.add(x.id)
            elif isinstance(x, (ast.FunctionDef, ast.AsyncFunctionDef, ast.ClassDef)) and x is not n:
                out.add(x.name)
    return out


def _is_generator(fnode) -> bool:
    if isinstance(fnode, ast.Lambda):
        return False
    return any(isinstance(x, (ast.Yield, ast.YieldFrom)) for st in fnode.body for x in walk_no_nested(st)
               if not isinstance(x, (ast.FunctionDef, ast.AsyncFunctionDef, ast.Lambda)))


def _handler_types(t) -> list:
    """names of the exception classes of an `except` clause / of the arguments of suppress(); [] = anything"""
    if t is None:
        return []
    out = []
    for e in (t.elts if isinstance(t, ast.Tuple) else [t]):
        out.append((chain(e) or "?").split(".")[-1])
    return out


def _suppress_items(w) -> list | None:
    """exception class names a `with` statement suppresses (contextlib.suppress), None when it is not one"""
    if not isinstance(w, (ast.With, ast.AsyncWith)):
        return None
    for item in w.items:
        ce = item.context_expr
        if isinstance(ce, ast.Call) and (chain(ce.func) or "").split(".")[-1] == "suppress" and not ce.keywords \
                and not any(isinstance(a, ast.Starred) for a in ce.args):
            names = []
            for a in ce.args:
                names.extend(_handler_types(a))
            return names
    return None


def _inside(node, outer) -> bool:
    return node is outer or any(a is outer for a in ancestors(node))


def _suppressor(node):
    """(with statement, suppressed class names) when an exception leaving `node` first meets a `with suppress(...)` block, else None"""
    if node is None:
        return None
    cur = node
    through_finally = False
    for a in ancestors(node):
        if isinstance(a, (ast.FunctionDef, ast.AsyncFunctionDef, ast.Lambda, ast.ClassDef)):
            return None
        if isinstance(a, ast.Try) or a.__class__.__name__ == "TryStar":
            if any(cur is x for x in a.body) and a.handlers:
                return None             # the handlers of this try see the exception first (what they let through leaves from the try itself)
            through_finally = through_finally or bool(a.finalbody)
        if isinstance(a, (ast.With, ast.AsyncWith)) and any(cur is x for x in a.body):
            names = _suppress_items(a)
            if names is not None:
                if through_finally:
                    raise _Und("`with suppress(...)` around try / finally")
                return a, names
        cur = a
    return None


def _entry_node(cfg, stmt):
    """the CFG node at which the execution of `stmt` begins"""
    inside = [n for n in cfg.nodes if n.ast is not None and n.kind not in ("dispatch",) and _inside(n.ast, stmt)]
    ins = set(map(id, inside))
    entries = [n for n in inside if any(id(p) not in ins for p, _ in n.pred)]
    if isinstance(stmt, (ast.For, ast.AsyncFor)):
        entries = [n for n in inside if n.kind == "stmt" and n.ast is stmt.iter] or entries
    elif isinstance(stmt, ast.While):
        entries = [n for n in inside if n.kind == "loop" and n.ast is stmt] or entries
    elif not entries:
        # not reached by falling off the previous statement (that one always returns / raises): the node nothing inside leads to
        entries = [n for n in inside if not any(id(p) in ins for p, _ in n.pred)]
    if len(entries) != 1:
        raise _Und("where execution continues after a `with suppress(...)` block")
    return entries[0]


def _after_node(cfg, stmt):  # noqa: C901, PLR0911
    """the CFG node that follows the normal completion of `stmt`"""
    p = parent(stmt)
    for field in ("body", "orelse", "finalbody"):
        block = getattr(p, field, None)
        if isinstance(block, list) and any(stmt is x for x in block):
            i = next(k for k, x in enumerate(block) if x is stmt)
            if i + 1 < len(block):
                return _entry_node(cfg, block[i + 1])
            if isinstance(p, (ast.FunctionDef, ast.AsyncFunctionDef)):
                return cfg.exit
            if isinstance(p, (ast.For, ast.AsyncFor, ast.While)) and field == "body":
                loops = [n for n in cfg.by_ast.get(id(p), []) if n.kind == "loop"]
                if len(loops) == 1:
                    return loops[0]
                raise _Und("where execution continues after a `with suppress(...)` block")
            if isinstance(p, ast.Try) or p.__class__.__name__ == "TryStar":
                if p.finalbody:
                    raise _Und("`with suppress(...)` inside try / finally")
                if field == "body" and p.orelse:
                    return _entry_node(cfg, p.orelse[0])
            return _after_node(cfg, p)
    if isinstance(p, ast.ExceptHandler) or p.__class__.__name__ == "match_case":
        pp = parent(p)
        if getattr(pp, "finalbody", None):
            raise _Und("`with suppress(...)` inside try / finally")
        return _after_node(cfg, pp)
    raise _Und("where execution continues after a `with suppress(...)` block")


_TRANSPARENT_DECORATORS = {"staticmethod", "classmethod", "abstractmethod", "override", "final", "no_type_check", "property",
                           "cached_property", "overload"}


def _transparent_decorator(d) -> bool:
    """@wraps(f) / @functools.wraps(f): the decorated function itself (only metadata is copied)"""
    return isinstance(d, ast.Call) and (chain(d.func) or "").split(".")[-1] == "wraps" and len(d.args) == 1 and not d.keywords


def _wrapping_decorators(fnode) -> list:
    """decorators of a def that may replace the function by another one (everything but the marker decorators of the language)"""
    out = []
    for d in getattr(fnode, "decorator_list", []):
        name = (chain(d.func) if isinstance(d, ast.Call) else chain(d)) or ""
        last = name.split(".")[-1]
        if last in _TRANSPARENT_DECORATORS or last in ("setter", "getter", "deleter") or _transparent_decorator(d):
            continue
        out.append(d)
    return out


def _attribute_stores(ctx) -> dict:
    """attribute name -> [(function | None, Attribute node)] for every store / delete of an attribute in the repository (built once per run)"""
    idx = getattr(ctx, "_c07_attribute_stores", None)
    if idx is None:
        idx = {}
        for m in ctx.repo.modules.values():
            for n in ast.walk(m.tree):
                if isinstance(n, ast.Attribute) and isinstance(n.ctx, (ast.Store, ast.Del)):
                    idx.setdefault(n.attr, []).append((ctx.repo.function_of(n), n))
        try:
            ctx._c07_attribute_stores = idx
        except AttributeError:
            pass
    return idx


class _Interp:
    """Symbolic execution of one function (and of what it calls, as far as `follow` says) on all CFG paths."""

    MAX_STEPS = 60000
    MAX_DEPTH = 8

    def __init__(self, ctx, top) -> None:
        self.ctx = ctx
        self.repo = ctx.repo
        self.top = top
        self.cls = top.cls
        self._n = 0
        self.steps = 0
        self.gens = {}
        self._raised = []
        self._locals = {}
        self._iterates = {}
        self._globals = {}
        self.cenv = {}
        self._gen_ends = []
        self.all_events = []
        self.entered = {id(top.node)}       # functions whose bodies were executed
        self._comp_uid = None               # identity of the comprehension whose element is being included (during on_include)
        self._limports = {}                 # names imported inside a function body: local name -> (module, attribute | None)
        self._rec_classes = {}              # classes of which the executed code made an instance: name -> ClassInfo
        self._body_ran = False
        self._bodies = set()                # functions under followed decorators: the wrapper the decorators return calls their body
        self._calls_seen = {}               # call site -> [name of the callee, times evaluated, times its body was entered]
        self._cw_used = set()               # names of functions whose calls must all have been entered (closed-world exception argument)
        self._cw_off = bool(_os.environ.get("C07_CW_OFF"))

    # ---------------------------------------------------------------- hooks for the client
    def follow(self, fi) -> bool:           # may the body of this callee be executed?
        return True

    def follow_object(self, ci, m) -> bool:  # may method m of an object of class ci held in a field of self be executed?
        return False

    def follow_decorator(self, fi) -> bool:  # may a decorator of the analysed function be executed (its wrapper analysed as the function)?
        return getattr(fi, "cls", None) is None and hasattr(fi, "node") and enclosing_function(fi.node) is None

    def on_call(self, c, fv, args, kwargs, st):     # -> list[(value, state)] | None
        return None

    def on_unknown_call(self, c, fv, args, kwargs, st):
        for a in [fv, *args, *((kwargs or {}).values())]:
            self.escapes(a, st)
        st.epoch += 1
        st.qver += 1
        st.heap.clear()
        return [(("call", self.uid(), _strip(fv), tuple(args), tuple(sorted(kwargs.items(), key=lambda kv: kv[0])) if kwargs is not None else None), st)]

    def on_opaque_call(self, c, st) -> None:        # a call inside an expression that is not evaluated (f-string, nested comprehension)
        return None

    def on_include(self, comp, value, st) -> None:  # an element is put into a comprehension result
        return None

    def read_field(self, base, name, st):           # special fields; None = ordinary
        return None

    # ---------------------------------------------------------------- basics
    def uid(self) -> int:
        self._n += 1
        return self._n

    def unknown(self):
        return ("unknown", self.uid())

    def closure(self, node, st):
        fr = st.frames[-1]
        k = self.uid()
        self.cenv[k] = {**(fr.captured or {}), **fr.env}
        return ("closure", node, k)

    def event(self, st, kind, node, ok, why="") -> None:
        e = _Event(kind, node, st.frames[-1].fi, bool(ok), "" if ok else why, tuple(st.facts.items()))
        st.events.append(e)
        st.effects.append(kind)
        self.all_events.append(e)

    def locals_of(self, fnode) -> set[str]:
        k = id(fnode)
        if k not in self._locals:
            if isinstance(fnode, ast.Lambda):
                names = set()
            else:
                names = _stored_names(fnode.body)
            a = fnode.args
            names.update(x.arg for x in a.posonlyargs + a.args + a.kwonlyargs)
            if a.vararg:
                names.add(a.vararg.arg)
            if a.kwarg:
                names.add(a.kwarg.arg)
            self._locals[k] = names
        return self._locals[k]

    def lookup(self, name: str, st):
        fr = st.frames[-1]
        if name in fr.env:
            return fr.env[name]
        if name in self.locals_of(fr.fi.node):
            return self.unknown()           # local that is not bound on this path
        fn = fr.fi.node
        while True:
            enc = enclosing_function(fn)
            if enc is None:
                break
            for f2 in reversed(st.frames[:-1]):
                if f2.fi.node is enc:
                    if name in f2.env:
                        return f2.env[name]
                    break
            if fr.captured is not None and name in fr.captured:
                return fr.captured[name]
            if name in self.locals_of(enc):
                return self.unknown()
            fn = enc
        lit = self.global_literal(fr.fi.module, name)
        return lit if lit is not None else ("global", name)

    def global_literal(self, module, name: str):
        """the value of a module-level name that is defined (in this very module) as a literal tuple / list / set of names and constants"""
        key = (id(module), name)
        if key not in self._globals:
            val = None
            expr = getattr(module, "constants", {}).get(name)
            if isinstance(expr, ast.Lambda):
                k = self.uid()
                self.cenv[k] = {}
                val = ("closure", expr, k)
            elif isinstance(expr, ast.Call) and not any(isinstance(a, ast.Starred) for a in expr.args) and all(k.arg for k in expr.keywords):
                # NAME = itemgetter(0) / attrgetter("x") / methodcaller("m", ...) / partial(f, ...) with constant or named arguments
                def simple(x):
                    if isinstance(x, ast.Constant):
                        return ("const", x.value)
                    if isinstance(x, ast.Name):
                        return ("global", x.id)
                    if isinstance(x, ast.Attribute):
                        b = simple(x.value)
                        return ("attr", b, x.attr) if b is not None else None
                    if isinstance(x, (ast.Tuple, ast.List)):
                        vs = [simple(y) for y in x.elts]
                        return None if any(y is None for y in vs) else ("tuple" if isinstance(x, ast.Tuple) else "list", tuple(vs))
                    return None
                fv = simple(expr.func)
                std = self.std_of(fv, module) if fv is not None else None
                args = [simple(a) for a in expr.args]
                kws = {k.arg: simple(k.value) for k in expr.keywords}
                if std in ("operator.itemgetter", "operator.attrgetter", "operator.methodcaller", "functools.partial") \
                        and not any(a is None for a in args) and not any(a is None for a in kws.values()):
                    got = self.stdlib_call(expr, std, args, kws, None)
                    val = got[0][0] if got else None
                elif std is None and not any(a is None for a in args) and not any(a is None for a in kws.values()):
                    # NAME = Settings(...) of a frozen dataclass / NamedTuple, bound once: an immutable record of its (default) fields
                    ci = self.repo.resolve_class_expr(module, expr.func)
                    n_stores = sum(1 for n in ast.walk(module.tree) if isinstance(n, ast.Name) and n.id == name and isinstance(n.ctx, (ast.Store, ast.Del)))
                    if ci is not None and n_stores == 1 and self.immutable_record_class(ci):
                        val = self.record(ci, args, kws)
            if isinstance(expr, (ast.Tuple, ast.List, ast.Set)):
                elts = []
                for x in expr.elts:
                    if isinstance(x, ast.Constant):
                        elts.append(("const", x.value))
                    elif isinstance(x, ast.Name):
                        elts.append(("global", x.id))
                    elif isinstance(x, ast.Attribute) and isinstance(x.value, ast.Name):
                        elts.append(("attr", ("global", x.value.id), x.attr))
                    else:
                        elts = None
                        break
                if elts is not None:
                    val = ({ast.Tuple: "tuple", ast.List: "list", ast.Set: "set"}[type(expr)], tuple(elts))
            self._globals[key] = val
        return self._globals[key]

    # ---------------------------------------------------------------- truth
    def norm(self, v, pol: bool):
        while True:
            if v[0] == "not":
                v, pol = v[1], not pol
            elif v[0] == "truth":
                v = v[1]
            elif v[0] == "cmp":
                op, l, r = v[1], v[2], v[3]
                if op == "ne":
                    op, pol = "eq", not pol
                elif op == "isnot":
                    op, pol = "is", not pol
                elif op == "notin":
                    op, pol = "in", not pol
                elif op == "ge":
                    op, pol = "lt", not pol
                elif op == "gt":
                    op, l, r = "lt", r, l
                elif op == "le":
                    op, l, r, pol = "lt", r, l, not pol
                if op in ("eq", "is"):
                    # a value that is a real bool (a comparison, not ..., bool(...)) compared with True / False: its own truth value
                    hit = False
                    for a, b in ((l, r), (r, l)):
                        if b[0] == "const" and isinstance(b[1], bool) and a[0] in ("truth", "cmp", "not"):
                            v, pol, hit = a, (pol if b[1] else not pol), True
                            break
                    if hit:
                        continue
                if op in ("eq", "is") and _vrepr(l) > _vrepr(r):
                    l, r = r, l
                return ("cmp", op, l, r), pol
            else:
                return v, pol

    def _distinct_consts(self, a, b, st):
        """True when a and b are two different named constants (enum members / module constants)"""
        a, b = _strip(a), _strip(b)
        if a[0] == "attr" and b[0] == "attr" and a[1] == b[1] and a[1][0] == "global" and a[2] != b[2]:
            ci = self.repo.resolve_name(st.frames[-1].fi.module, a[1][1])
            if hasattr(ci, "all_base_names") and ci.all_base_names() & {"Enum", "IntEnum", "StrEnum", "Flag", "IntFlag"}:
                return a[2] in ci.attrs and b[2] in ci.attrs
        return False

    def named_literal(self, v, st):
        """("const", value) for a literal or for a module-level name bound (once, at module level) to a str / bytes / int literal; None otherwise"""
        if v[0] == "const":
            return v if isinstance(v[1], (str, bytes, int)) else None
        if v[0] != "global" or len(v) != 2:
            return None
        r = self.repo.resolve_name(st.frames[-1].fi.module, v[1])
        expr = r[2] if isinstance(r, tuple) and len(r) == 3 and r[0] == "const" else None
        if isinstance(expr, ast.Constant) and isinstance(expr.value, (str, bytes, int)):
            return ("const", expr.value)
        return None

    def base_truth(self, k, st):
        tag = k[0]
        if tag == "const":
            return bool(k[1])
        if tag in ("tuple", "list", "set"):
            return len(k[1]) > 0
        if tag == "dict":
            return len(k[1]) > 0
        if tag in ("closure", "func", "gen", "bound") or tag in _PIPE_TAGS:
            return True
        if tag == "record" and k[2]:
            return True
        if tag == "cmp":
            op, l, r = k[1], k[2], k[3]
            if l[0] == "const" and r[0] == "const":
                try:
                    if op == "eq":
                        return l[1] == r[1]
                    if op == "is":
                        return l[1] is r[1] or (l[1] == r[1] and type(l[1]) is type(r[1]))
                    if op == "lt":
                        return l[1] < r[1]
                    if op == "in":
                        return l[1] in r[1]
                except TypeError:
                    return None
            if op in ("eq", "is") and "global" in (l[0], r[0]) and l != r:
                # module-level NAME = <literal> used as a decision tag: two such names (or one and a literal) compare like their values
                lv, rv = self.named_literal(l, st), self.named_literal(r, st)
                if lv is not None and rv is not None and type(lv[1]) is type(rv[1]) and lv[1] is not None \
                        and (op == "eq" or lv[1] != rv[1] or isinstance(lv[1], bool)):
                    return lv[1] == rv[1]
            if op in ("eq", "is"):
                if l == r and l[0] not in ("unknown",):
                    return True
                for a, b in ((l, r), (r, l)):
                    if a == _NONE and (b[0] in ("tuple", "list", "set", "dict", "closure", "func", "gen", "bound", "qitem", "truth", "cmp", "not",
                                                "local", "comp", "filtered", "iter", "reversed", "slice", "binop", "record") or b[0] in _PIPE_TAGS):
                        return False
                    if a == _NONE and b[0] == "pcall" and b[1][0] == "global" and b[1][1] in _NEVER_NONE:
                        return False
                    if a[0] == "const" and b[0] in ("tuple", "list", "set", "dict", "closure", "func") and not isinstance(a[1], tuple):
                        return False
                if self._distinct_consts(l, r, st):
                    return False
            if op == "in" and r[0] in ("tuple", "list", "set") and l[0] == "const" and all(x[0] == "const" for x in r[1]):
                return any(x[1] == l[1] for x in r[1])
        return None

    def truth(self, v, st):
        k, pol = self.norm(v, True)
        t = self.base_truth(k, st)
        if t is None:
            t = st.facts.get(k)
        if t is None:
            return None
        return t if pol else not t

    def assume(self, v, pol: bool, st) -> bool:
        k, p = self.norm(v, pol)
        t = self.base_truth(k, st)
        if t is None:
            t = st.facts.get(k)
        if t is not None:
            return t == p
        if p and self._contradicts_type(k, st):
            return False
        st.facts[k] = p
        return True

    @staticmethod
    def _contradicts_type(k, st) -> bool:
        """`x is None` and `isinstance(x, T)` cannot both hold for the very same value x (same read, nothing happened in between)"""
        def inst_of(key):
            # isinstance(x, <a class named at module level>), not `object` (None is an instance of that one)
            return key[2][0] if key[0] == "pcall" and key[1] == ("global", "isinstance") and len(key[2]) == 2 \
                and key[2][1][0] == "global" and key[2][1][1] not in ("object", "NoneType") else None
        if k[0] == "cmp" and k[1] == "is" and _NONE in (k[2], k[3]):
            x = k[3] if k[2] == _NONE else k[2]
            return any(pol and inst_of(key) == x for key, pol in st.facts.items())
        x = inst_of(k)
        if x is not None and x != _NONE:
            return any(pol and key[0] == "cmp" and key[1] == "is" and {key[2], key[3]} == {x, _NONE} for key, pol in st.facts.items())
        return False

    # ---------------------------------------------------------------- expressions: list of (value, state)
    def ev_seq(self, exprs, st):
        outs = [((), st)]
        for e in exprs:
            nxt = []
            for vals, s in outs:
                for v, s2 in self.ev(e, s):
                    nxt.append((vals + (v,), s2))
            outs = nxt
        return outs

    def scan(self, e, st):
        """an expression that is not evaluated structurally: only the calls hidden in it matter"""
        for n in ast.walk(e):
            if isinstance(n, ast.Call):
                self.count_call(n, 1)
                self.on_opaque_call(n, st)
        return [(self.unknown(), st)]

    def ev(self, e, st):  # noqa: C901, PLR0911, PLR0912
        self.steps += 1
        if self.steps > self.MAX_STEPS:
            raise _Und("too many symbolic steps")
        if e is None:
            return [(_NONE, st)]
        if isinstance(e, ast.Constant):
            return [(("const", e.value), st)]
        if isinstance(e, ast.Name):
            return [(self.lookup(e.id, st), st)]
        if isinstance(e, ast.Attribute):
            out = []
            for b, s in self.ev(e.value, st):
                getter = self.record_property(b, e.attr) or self.object_property(b, e.attr)
                if getter is not None:
                    out.extend(self.invoke(getter.node, b, [], {}, s, e))
                else:
                    out.append((self.read_attr(b, e.attr, s), s))
            return out
        if isinstance(e, ast.Subscript):
            return self.ev_subscript(e, st)
        if isinstance(e, (ast.Tuple, ast.List, ast.Set)):
            tag = "tuple" if isinstance(e, ast.Tuple) else "list" if isinstance(e, ast.List) else "set"
            if any(isinstance(x, ast.Starred) for x in e.elts):
                out = []
                for vals, s in self.ev_seq([x.value if isinstance(x, ast.Starred) else x for x in e.elts], st):
                    flat = []
                    for x, v in zip(e.elts, vals):
                        if isinstance(x, ast.Starred):
                            if v[0] in ("tuple", "list"):
                                flat.extend(v[1])
                            else:
                                if v[0] == "gen":
                                    self.exhaust(v, s)
                                flat = None
                                break
                        else:
                            flat.append(v)
                    out.append(((tag, tuple(flat)) if flat is not None else self.unknown(), s))
                return out
            return [((tag, vals), s) for vals, s in self.ev_seq(e.elts, st)]
        if isinstance(e, ast.Dict):
            if any(k is None for k in e.keys):
                return [(self.unknown(), s) for _, s in self.ev_seq([x for x in list(e.keys) + list(e.values) if x is not None], st)]
            n = len(e.keys)
            return [(("dict", tuple(zip(vals[:n], vals[n:]))), s) for vals, s in self.ev_seq(list(e.keys) + list(e.values), st)]
        if isinstance(e, ast.Compare):
            out = []
            for vals, s in self.ev_seq([e.left, *e.comparators], st):
                if len(e.ops) == 1 and type(e.ops[0]) in _CMP:
                    out.append((("cmp", _CMP[type(e.ops[0])], vals[0], vals[1]), s))
                else:
                    out.append((("cmpchain", tuple(type(o).__name__ for o in e.ops), vals), s))
            return out
        if isinstance(e, ast.BoolOp):
            return self.ev_boolop(e, st)
        if isinstance(e, ast.UnaryOp):
            out = []
            for v, s in self.ev(e.operand, st):
                if isinstance(e.op, ast.Not):
                    out.append((("not", v), s))
                elif isinstance(e.op, ast.USub) and v[0] == "const" and isinstance(v[1], (int, float)):
                    out.append((("const", -v[1]), s))
                else:
                    out.append((("unop", type(e.op).__name__, v), s))
            return out
        if isinstance(e, ast.BinOp):
            return [(("binop", type(e.op).__name__, vals[0], vals[1]), s) for vals, s in self.ev_seq([e.left, e.right], st)]
        if isinstance(e, ast.IfExp):
            out = []
            for b, s in self.test(e.test, st):
                out.extend(self.ev(e.body if b else e.orelse, s))
            return out
        if isinstance(e, ast.Call):
            return self.ev_call(e, st)
        if isinstance(e, ast.NamedExpr):
            out = []
            for v, s in self.ev(e.value, st):
                self.assign(e.target, v, s)
                out.append((v, s))
            return out
        if isinstance(e, ast.Lambda):
            return [(self.closure(e, st), st)]
        if isinstance(e, ast.Await):
            return self.ev(e.value, st)
        if isinstance(e, ast.Starred):
            return self.ev(e.value, st)
        if isinstance(e, (ast.ListComp, ast.SetComp, ast.GeneratorExp, ast.DictComp)):
            return self.ev_comp(e, st)
        if isinstance(e, ast.Yield):
            fr = st.frames[-1]
            if fr.collect is None:
                raise _Und("yield outside a followed generator")
            out = []
            for v, s in self.ev(e.value, st):
                snap = s.fork()
                fr.collect.append((v, snap))
                out.append((self.unknown(), s))
            return out
        if isinstance(e, ast.YieldFrom):
            fr = st.frames[-1]
            if fr.collect is None:
                raise _Und("yield outside a followed generator")
            out = []
            for v, s in self.ev(e.value, st):
                for x, s2 in self.elements(v, s.fork()):
                    fr.collect.append((x, s2.fork()))
                out.append((self.unknown(), s))
            return out
        if isinstance(e, (ast.JoinedStr, ast.FormattedValue)):
            return self.scan(e, st)
        if isinstance(e, ast.Slice):
            return [(("sliceobj", vals), s) for vals, s in self.ev_seq([e.lower, e.upper, e.step], st)]
        return self.scan(e, st)

    def ev_boolop(self, e, st):
        is_and = isinstance(e.op, ast.And)
        out = []
        pending = [st]
        for i, operand in enumerate(e.values):
            last = i == len(e.values) - 1
            nxt = []
            for s in pending:
                for v, s2 in self.ev(operand, s):
                    if last:
                        out.append((v, s2))
                        continue
                    t = self.truth(v, s2)
                    if t is None:
                        s3 = s2.fork()
                        if self.assume(v, not is_and, s3):
                            out.append((v, s3))
                        if self.assume(v, is_and, s2):
                            nxt.append(s2)
                    elif t == is_and:
                        nxt.append(s2)
                    else:
                        out.append((v, s2))
            pending = nxt
        return out

    def test(self, e, st):
        """[(outcome, state)] of evaluating e for its truth value (short-circuit order, facts recorded)"""
        if isinstance(e, ast.UnaryOp) and isinstance(e.op, ast.Not):
            return [(not b, s) for b, s in self.test(e.operand, st)]
        if isinstance(e, ast.BoolOp):
            is_and = isinstance(e.op, ast.And)
            out = []
            pending = [st]
            for operand in e.values:
                nxt = []
                for s in pending:
                    for b, s2 in self.test(operand, s):
                        if b == is_and:
                            nxt.append(s2)
                        else:
                            out.append((b, s2))
                pending = nxt
            out.extend((is_and, s) for s in pending)
            return out
        if isinstance(e, ast.IfExp):
            out = []
            for b, s in self.test(e.test, st):
                out.extend(self.test(e.body if b else e.orelse, s))
            return out
        out = []
        for v, s in self.ev(e, st):
            t = self.truth(v, s)
            if t is None:
                s2 = s.fork()
                if self.assume(v, True, s):
                    out.append((True, s))
                if self.assume(v, False, s2):
                    out.append((False, s2))
            else:
                out.append((t, s))
        return out

    def class_table(self, base, name, st):
        """value of a class-level literal table `self.NAME` / `Class.NAME` (dispatch tables), else None"""
        b = _strip(base)
        ci = None
        if b == _SELF or b == ("param", "cls"):
            ci = self.cls
        elif b[0] == "global":
            r = self.repo.resolve_name(st.frames[-1].fi.module, b[1])
            ci = r if hasattr(r, "lookup_attr") else None
        if ci is None or ci.lookup(name) is not None:
            return None
        expr = ci.lookup_attr(name)
        if not isinstance(expr, (ast.Dict, ast.Tuple, ast.List)):
            return None

        def conv(x):
            if isinstance(x, ast.Constant):
                return ("const", x.value)
            if isinstance(x, ast.Name):
                m = ci.lookup(x.id)
                return ("func", m) if m is not None else ("global", x.id)
            if isinstance(x, ast.Attribute):
                inner = conv(x.value)
                return ("attr", inner, x.attr) if inner is not None else None
            if isinstance(x, (ast.Tuple, ast.List)):
                vs = [conv(y) for y in x.elts]
                return None if any(y is None for y in vs) else ("tuple", tuple(vs))
            if isinstance(x, ast.Dict):
                ks = [conv(y) if y is not None else None for y in x.keys]
                vs = [conv(y) for y in x.values]
                return None if any(y is None for y in ks + vs) else ("dict", tuple(zip(ks, vs)))
            return None
        return conv(expr)

    def record_ids(self, v, depth: int = 6):
        """identities of the self-made objects (see record / instantiate) a value is or contains"""
        if type(v) is not tuple or not v or v[0] == "const" or depth <= 0:
            return
        if v[0] == "record" and len(v) > 3:
            yield v[3]
        if v[0] == "closure" and len(v) > 2:
            for x in (self.cenv.get(v[2]) or {}).values():
                yield from self.record_ids(x, depth - 1)
        for x in v:
            if type(x) is tuple:
                yield from self.record_ids(x, depth - 1)

    def escapes(self, v, st) -> None:
        """v is handed to code that is not executed here / stored where such code finds it: fields of self-made objects in it may change"""
        if v is None:
            return
        for ident in list(self.record_ids(v)):
            if (ident, "#escaped") in st.objs:
                continue
            st.objs[(ident, "#escaped")] = ("const", True)
            for (b, a), val in list(st.objs.items()):
                if b == ident and a != "#escaped":
                    self.escapes(val, st)           # what the object holds is reachable too

    def read_attr(self, base, name, st):
        if base[0] == "record" and len(base) > 3:
            if (base[3], "#escaped") in st.objs and self._rec_classes.get(base[1]) is not None and self._rec_classes[base[1]].lookup(name) is None:
                return self.unknown()
            if (base[3], name) in st.objs:
                return st.objs[(base[3], name)]
        key = (_strip(base), name)
        if key in st.heap:
            return st.heap[key]
        r = self.read_field(base, name, st)
        if r is not None:
            return r
        if base[0] == "const" and base[1] is None:
            return self.unknown()           # attribute of None: this path raises; no value
        if base[0] == "obj" and (base, name) in st.objs:
            return st.objs[(base, name)]
        if base[0] == "record":
            for f, val in base[2]:
                if f == name:
                    return val
            ci = self._rec_classes.get(base[1])
            m = ci.lookup(name) if ci is not None else None
            if m is not None and not ({"property", "classmethod", "staticmethod"} & set(m.decorator_names())):
                return ("bound", base, m)
        t = self.class_table(base, name, st)
        if t is not None:
            return t
        return ("attr", base, name, st.epoch)

    def ev_subscript(self, e, st):
        out = []
        if isinstance(e.slice, ast.Slice):
            for vals, s in self.ev_seq([e.value, e.slice.lower, e.slice.upper, e.slice.step], st):
                out.append((("slice", vals[0], vals[1], vals[2], vals[3]), s))
            return out
        for vals, s in self.ev_seq([e.value, e.slice], st):
            out.extend(self.index(vals[0], vals[1], s))
        return out

    def index(self, base, idx, st):
        """base[idx]: literal tables select (all entries when the key is not known, each under the assumption that selects it)"""
        if base[0] == "record":
            base = ("tuple", tuple(val for _, val in base[2]))
        if base[0] in ("tuple", "list"):
            elts = base[1]
            if idx[0] == "const" and isinstance(idx[1], int) and not isinstance(idx[1], bool):
                if -len(elts) <= idx[1] < len(elts):
                    return [(elts[idx[1]], st)]
                return [(self.unknown(), st)]
            if idx[0] == "const" and isinstance(idx[1], bool):
                return [(elts[int(idx[1])], st)] if len(elts) == 2 else [(self.unknown(), st)]
            out = []
            for i, x in enumerate(elts):
                s = st.fork()
                if len(elts) == 2 and idx[0] in ("truth", "cmp", "not", "pcall"):
                    if not self.assume(idx, bool(i), s):
                        continue
                elif not self.assume(("cmp", "eq", idx, ("const", i)), True, s):
                    continue
                out.append((x, s))
            return out
        if base[0] == "dict":
            items = base[1]
            if idx[0] == "const":
                for k, v in items:
                    if k[0] == "const" and k[1] == idx[1] and (isinstance(k[1], bool) == isinstance(idx[1], bool)):
                        return [(v, st)]
                if all(k[0] == "const" for k, _ in items):
                    return [(self.unknown(), st)]       # KeyError
            out = []
            for k, v in items:
                s = st.fork()
                if k[0] == "const" and isinstance(k[1], bool):
                    if not self.assume(idx, k[1], s):
                        continue
                elif not self.assume(("cmp", "eq", idx, k), True, s):
                    continue
                out.append((v, s))
            return out
        return [(("sub", base, idx), st)]

    def iterates(self, cfg, node) -> bool:
        key = (id(cfg), node.id)
        if key not in self._iterates:
            self._iterates[key] = node in cfg.reach([v for v, lab in node.succ if lab is not False and lab != "exc"])
        return self._iterates[key]

    def first(self, v, st):
        """[(element, state)]: the first thing iterating over v produces"""
        while v[0] == "iter":
            v = v[1]
        if v[0] == "gen":
            return self.run_generator(v, st)
        if v[0] in ("tuple", "list"):
            return [(v[1][0], st)] if v[1] else []
        if v[0] == "chained" and v[1] and v[1][0][0] in ("tuple", "list") and v[1][0][1]:
            return [(v[1][0][1][0], st)]
        if v[0] == "islice" and v[2]:
            return self.first(v[1], st)
        if v[0] == "mapped" and len(v[2]) == 1:
            out = []
            for x, s in self.first(v[2][0], st):
                out.extend(self.call(v[3], v[1], [x], {}, s))
            return out
        if v[0] == "filtered" or v[0] in _PIPE_TAGS:
            return self.elements(v, st)
        if v[0] == "pcall" and v[1] == ("global", "enumerate") and 1 <= len(v[2]) <= 2:
            return [(("tuple", (v[2][1] if len(v[2]) == 2 else ("const", 0), x)), s) for x, s in self.first(v[2][0], st)]
        return [(("sub", v, ("const", 0)), st)]

    def elements(self, v, st):
        """[(element, state)]: what iterating over v can produce"""
        if v[0] == "gen":
            return self.run_generator(v, st)
        if v[0] == "iter":
            return self.elements(v[1], st)
        if v[0] in ("tuple", "list", "set"):
            out = []
            for x in v[1]:
                out.append((x, st.fork()))
            return out
        if v[0] == "pcall" and v[1] == ("global", "enumerate") and 1 <= len(v[2]) <= 2:
            return [(("tuple", (self.unknown(), x)), s) for x, s in self.elements(v[2][0], st)]
        if v[0] in ("filtered", "takewhile", "filterfalse"):
            # every element that comes out was tested by the predicate with this outcome (takewhile: it stops at the first other one)
            want = v[0] != "filterfalse"
            out = []
            for x, s in self.elements(v[2], st):
                for r, s2 in self.call(v[3], v[1], [x], {}, s):
                    t = self.truth(r, s2)
                    if t is want or (t is None and self.assume(r, want, s2)):
                        out.append((x, s2))
            return out
        if v[0] == "record":
            ci = self._rec_classes.get(v[1])
            m = ci.lookup("__iter__") if ci is not None else None
            if m is not None:
                out = []
                for g, s in self.invoke(m.node, v, [], {}, st.fork(), None):
                    out.extend(self.elements(g, s))
                return out
        if v[0] == "chained":
            out = []
            for part in v[1]:
                out.extend(self.elements(part, st.fork()))
            return out
        if v[0] == "itercall":
            # iter(callable, sentinel): what the callable returns, as long as it is not the sentinel
            out = []
            for r, s in self.call(v[3], v[1], [], {}, st.fork()):
                same = ("cmp", "eq", r, v[2])
                t = self.truth(same, s)
                if t is False or (t is None and self.assume(same, False, s)):
                    out.append((r, s))
            return out
        if v[0] == "chainfrom":
            out = []
            for part, s in self.elements(v[1], st.fork()):
                out.extend(self.elements(part, s))
            return out
        if v[0] == "islice":
            return self.elements(v[1], st)
        if v[0] == "dropwhile":
            # a subset of the elements; the predicate ran on some of them, what it says about the ones that come out is not known
            out = []
            for x, s in self.elements(v[2], st):
                keep = s.fork()
                self.absorb(keep, [s2 for _, s2 in self.call(v[3], v[1], [x], {}, s)])
                out.append((x, keep))
            return out
        if v[0] in ("mapped", "starmapped"):
            combos = [((), st)]
            for i, it in enumerate(v[2]):
                combos = [(xs + (x,), s2) for xs, s in combos for x, s2 in self.elements(it, s if i == 0 else s.fork())]
            out = []
            for xs, s in combos:
                if v[0] == "starmapped":
                    x = xs[0]
                    xs = x[1] if x[0] in ("tuple", "list") else tuple(val for _, val in x[2]) if x[0] == "record" else (_STAR,)
                out.extend(self.call(v[3], v[1], list(xs), {}, s))
            return out
        if v[0] == "accumulated":
            out = []
            for x, s in self.elements(v[1], st):
                if v[2] is None or v[2] == _NONE:
                    out.append((self.unknown(), s))
                    continue
                if v[3] is None:
                    out.append((x, s.fork()))       # the first element comes out as it is
                out.extend(self.call(v[4], v[2], [self.unknown(), x], {}, s))
            if v[3] is not None:
                out.append((v[3], st.fork()))
            return out
        return [(("elem", v, self.uid()), st)]

    def absorb(self, st, others) -> None:
        """what happened in the states `others` (forks of st that ran some call) may have happened in st"""
        n_ev, n_eff = len(st.events), len(st.effects)
        base_ev = list(st.events)
        for o in others:
            st.events.extend(y for y in o.events if y not in base_ev and y not in st.events[n_ev:])
            st.effects.extend(y for y in o.effects[n_eff:] if y not in st.effects[n_eff:])
        if len(st.events) > n_ev or len(st.effects) > n_eff:
            st.epoch += 1
            st.qver += 1
            st.heap.clear()

    # ---------------------------------------------------------------- itertools / functools / operator / contextlib
    def stdlib_name(self, fv, st):
        """'itertools.chain', 'functools.partial' ...: the called value is a name imported from one of the modelled standard modules"""
        return self.std_of(_strip(fv), st.frames[-1].fi.module)

    def std_of(self, fv, m):
        def imp(name):
            r = self._limports.get(name)
            if r is None and name not in getattr(m, "functions", {}) and name not in getattr(m, "classes", {}) \
                    and name not in getattr(m, "constants", {}):
                r = getattr(m, "imports", {}).get(name)
            return r if r is not None and r[0] in _STD_MODULES else None
        if fv[0] == "global":
            r = imp(fv[1])
            return r[0] + "." + r[1] if r is not None and r[1] is not None else None
        if fv[0] == "attr" and type(fv[1]) is tuple and fv[1]:
            if fv[1][0] == "global":
                r = imp(fv[1][1])
                return (r[0] if r[1] is None else r[0] + "." + r[1]) + "." + fv[2] if r is not None else None
            if fv[1][0] == "attr":
                inner = self.std_of(fv[1], m)
                return inner + "." + fv[2] if inner is not None else None
        return None

    def stdlib_call(self, c, std, args, kwargs, st):  # noqa: C901, PLR0911, PLR0912
        """[(value, state)] of a call of a modelled itertools / functools / operator / contextlib function, None when it is not modelled"""
        if kwargs is None or _STAR in args:
            return None
        name = std.split(".", 1)[1]
        n = len(args)
        kw = tuple(sorted(kwargs.items(), key=lambda kv: kv[0]))
        if std == "itertools.chain" and not kwargs:
            return [(("chained", tuple(args)), st)]
        if std == "itertools.chain.from_iterable" and n == 1 and not kwargs:
            return [((("chained", tuple(args[0][1])) if args[0][0] in ("tuple", "list") else ("chainfrom", args[0])), st)]
        if std == "itertools.islice" and 2 <= n <= 4 and not kwargs:
            from_start = n == 2 or (args[1] in (_NONE, ("const", 0)) and (n == 3 or args[3] in (_NONE, ("const", 1))))
            return [(("islice", args[0], from_start), st)]
        if std in ("itertools.takewhile", "itertools.dropwhile", "itertools.filterfalse") and n == 2 and not kwargs:
            if args[0] == _NONE:
                return None
            return [((name, args[0], args[1], c), st)]
        if std == "itertools.starmap" and n == 2 and not kwargs:
            return [(("starmapped", args[0], (args[1],), c), st)]
        if std == "itertools.accumulate" and 1 <= n <= 2 and set(kwargs) <= {"func", "initial"}:
            return [(("accumulated", args[0], args[1] if n == 2 else kwargs.get("func"), kwargs.get("initial"), c), st)]
        if std == "functools.partial" and n >= 1:
            return [(("partial", args[0], tuple(args[1:]), kw), st)]
        if std == "functools.reduce" and 2 <= n <= 3 and not kwargs:
            ran = []
            for x, s in self.elements(args[1], st.fork()):
                ran.extend(s2 for _, s2 in self.call(c, args[0], [self.unknown(), x], {}, s))
            self.absorb(st, ran)
            return [(self.unknown(), st)]
        if std == "operator.itemgetter" and n >= 1 and not kwargs:
            return [(("itemgetter", tuple(args)), st)]
        if std == "operator.attrgetter" and n >= 1 and not kwargs and all(a[0] == "const" and isinstance(a[1], str) for a in args):
            return [(("attrgetter", tuple(a[1] for a in args)), st)]
        if std == "operator.methodcaller" and n >= 1 and args[0][0] == "const" and isinstance(args[0][1], str):
            return [(("methodcaller", args[0][1], tuple(args[1:]), kw), st)]
        if std.startswith("operator.") and not kwargs:
            if n == 1 and name in ("not_", "truth", "is_none", "is_not_none"):
                a = args[0]
                return [({"not_": ("not", a), "truth": ("truth", a), "is_none": ("cmp", "is", a, _NONE), "is_not_none": ("cmp", "isnot", a, _NONE)}[name], st)]
            if n == 2 and name in _OP_CMP:
                return [(("cmp", _OP_CMP[name], args[0], args[1]), st)]
            if n == 2 and name == "contains":
                return [(("cmp", "in", args[1], args[0]), st)]
            if n == 2 and name == "getitem":
                return self.index(args[0], args[1], st)
            if (n, name) in ((3, "setitem"), (2, "delitem")):
                # the same as the method call base.__setitem__(key, value) / base.__delitem__(key)
                return self.call(c, ("attr", args[0], f"__{name}__", st.epoch), list(args[1:]), {}, st)
            if n == 2 and name in ("and_", "or_", "add", "sub", "mul", "xor"):
                op = {"and_": "BitAnd", "or_": "BitOr", "add": "Add", "sub": "Sub", "mul": "Mult", "xor": "BitXor"}[name]
                return [(("binop", op, args[0], args[1]), st)]
            return None
        if std in ("contextlib.suppress", "contextlib.nullcontext"):
            return [(("pcall", ("global", name), tuple(args), st.epoch), st)]
        if std == "itertools.repeat" and 1 <= n <= 2 and not kwargs:
            return [(("chained", (("tuple", (args[0],)),)), st)]
        if std == "itertools.cycle" and n == 1 and not kwargs:
            return [(("islice", args[0], True), st)]
        if std in ("itertools.count", "itertools.zip_longest", "itertools.product", "itertools.pairwise", "itertools.batched", "itertools.compress",
                   "itertools.combinations", "itertools.permutations", "itertools.tee") \
                and not any(a[0] in ("gen", "mapped", "starmapped", "filtered", "takewhile", "dropwhile", "filterfalse", "itercall", "accumulated") for a in args):
            return [(("pcall", ("global", name), tuple(args), st.epoch), st)]     # rearranges values, calls nothing
        return None

    def apply_value(self, c, fv, args, kwargs, st):
        """[(value, state)] of calling a callable built by functools.partial / operator.itemgetter / attrgetter / methodcaller; None otherwise"""
        tag = fv[0]
        if tag == "partial":
            kw = None if kwargs is None else {**dict(fv[3]), **kwargs}
            return self.call(c, fv[1], list(fv[2]) + list(args), kw, st)
        if tag not in ("itemgetter", "attrgetter", "methodcaller"):
            return None
        if len(args) != 1 or args[0] is _STAR or kwargs:
            return [(self.unknown(), st)]
        x = args[0]
        if tag == "itemgetter":
            outs = [((), st)]
            for i in fv[1]:
                outs = [(vals + (val,), s2) for vals, s in outs for val, s2 in self.index(x, i, s)]
            return [(vals[0] if len(vals) == 1 else ("tuple", vals), s) for vals, s in outs]
        if tag == "attrgetter":
            vals = []
            for dotted in fv[1]:
                cur = x
                for part in dotted.split("."):
                    cur = self.read_attr(cur, part, st)
                vals.append(cur)
            return [(vals[0] if len(vals) == 1 else ("tuple", tuple(vals)), st)]
        key = (_strip(x), fv[1])
        return self.call(c, st.heap[key] if key in st.heap else ("attr", x, fv[1], st.epoch), list(fv[2]), dict(fv[3]), st)

    def ev_comp(self, e, st):  # noqa: C901
        gens = e.generators
        if len(gens) != 1 or gens[0].is_async:
            return self.scan(e, st)
        g = gens[0]
        res = []
        for iv, s in self.ev(g.iter, st):
            n_ev, n_eff = len(s.events), len(s.effects)
            new_ev, new_eff = [], []
            same = isinstance(e, (ast.ListComp, ast.SetComp, ast.GeneratorExp)) and isinstance(e.elt, ast.Name) \
                and isinstance(g.target, ast.Name) and e.elt.id == g.target.id
            place = ("elem", iv, self.uid())
            cuid = self.uid()
            common = None
            every = []          # what was newly known in each case in which an element was included
            one_elt = None
            probe = s.fork()
            before = dict(probe.facts)
            alts = [(place, probe)] if iv[0] != "gen" else self.elements(iv, probe)
            for v, s2 in alts:
                self.assign(g.target, v, s2)
                states = [s2]
                for cond in g.ifs:
                    nxt = []
                    for s3 in states:
                        nxt.extend(s4 for b, s4 in self.test(cond, s3) if b)
                    states = nxt
                for s3 in states:
                    elts = [e.key, e.value] if isinstance(e, ast.DictComp) else [e.elt]
                    for vals, s4 in self.ev_seq(elts, s3):
                        self._comp_uid = cuid
                        self.on_include(e, vals[-1], s4)
                        self._comp_uid = None
                        one_elt = vals[-1]
                        new_ev.extend(x for x in s4.events[n_ev:] if x not in new_ev)
                        new_eff.extend(s4.effects[n_eff:])
                        gained = {(k, p) for k, p in s4.facts.items() if before.get(k) != p}
                        common = gained if common is None else common & gained
                        every.append(gained)
            s.events.extend(new_ev)
            s.effects.extend(new_eff)
            filt = tuple(sorted(((_strip(k), p) for k, p in (common or ())), key=lambda kp: _vrepr(kp[0]))) if same and iv[0] != "gen" else None
            shape = _strip(one_elt) if one_elt is not None and not g.ifs and iv[0] != "gen" else None
            cases = tuple(tuple(sorted(((_strip(k), p) for k, p in g_), key=lambda kp: _vrepr(kp[0]))) for g_ in every) \
                if same and iv[0] != "gen" and len(every) <= 64 else None
            res.append((("comp", cuid, iv, _strip(place), filt, shape, cases), s))
        return res

    # ---------------------------------------------------------------- calls
    def ev_call(self, c, st):  # noqa: C901
        out = self.super_call(c, st)
        if out is not None:
            return out
        out = []
        f = c.func
        if isinstance(f, ast.Attribute):
            heads = []
            for b, s in self.ev(f.value, st):
                key = (_strip(b), f.attr)
                if key in s.heap:
                    heads.append((s.heap[key], s))
                else:
                    heads.append((("attr", b, f.attr, s.epoch), s))
        else:
            heads = self.ev(f, st)
        for fv, s in heads:
            exprs = [a.value if isinstance(a, ast.Starred) else a for a in c.args] + [k.value for k in c.keywords]
            for vals, s2 in self.ev_seq(exprs, s):
                args = []
                for a, v in zip(c.args, vals):
                    if isinstance(a, ast.Starred):
                        if v[0] in ("tuple", "list"):
                            args.extend(v[1])
                        else:
                            if v[0] == "gen":
                                self.exhaust(v, s2)
                            args.append(_STAR)
                    else:
                        args.append(v)
                kwargs = {}
                for k, v in zip(c.keywords, vals[len(c.args):]):
                    if k.arg is None:
                        if v[0] == "dict" and all(x[0][0] == "const" and isinstance(x[0][1], str) for x in v[1]):
                            kwargs.update({x[0][1]: x[1] for x in v[1]})
                        else:
                            kwargs = None
                            break
                    else:
                        kwargs[k.arg] = v
                out.extend(self.call(c, fv, args, kwargs, s2))
        return out

    def call(self, c, fv, args, kwargs, st):  # noqa: C901, PLR0911, PLR0912
        self.count_call(c, 1)
        lazy = fv[0] in ("closure", "func", "bound") or (fv[0] == "global" and fv[1] in ("iter", "next", "reversed", "enumerate", "filter", "map", "zip", "cast")) \
            or (fv[0] == "attr" and _strip(fv[1]) == _SELF and self.cls is not None and self.cls.lookup(fv[2]) is not None and self.follow(self.cls.lookup(fv[2])))
        std = self.stdlib_name(fv, st) if fv[0] in ("global", "attr") else None
        if std is not None:
            # lazy iterators / callables of the standard library are values: what they do is judged where they are iterated / called
            r = self.stdlib_call(c, std, args, kwargs, st)
            if r is not None:
                return r
        if not lazy and fv[0] not in ("partial", "record", "methodcaller"):
            for a in list(args) + list((kwargs or {}).values()):
                if a[0] == "gen":
                    self.exhaust(a, st)
        r = self.on_call(c, fv, args, kwargs, st)
        if r is not None:
            return r
        tag = fv[0]
        r = self.apply_value(c, fv, args, kwargs, st)
        if r is not None:
            return r
        if tag == "record":
            ci = self._rec_classes.get(fv[1])
            m = ci.lookup("__call__") if ci is not None else None
            if m is not None:
                return self.invoke(m.node, fv, args, kwargs, st, c)
            return self.on_unknown_call(c, fv, args, kwargs, st)
        if tag == "closure":
            return self.invoke(fv[1], None, args, kwargs, st, c, self.cenv.get(fv[2]) if len(fv) > 2 else None)
        if tag == "func":
            if id(fv[1].node) in self._bodies:
                self._body_ran = self._body_ran or fv[1] is self.top
                return self.invoke(fv[1].node, None, args, kwargs, st, c)      # the body a decorator's wrapper calls
            if self.follow(fv[1]):
                return self.invoke(fv[1].node, None, args, kwargs, st, c)
            return self.on_unknown_call(c, fv, args, kwargs, st)
        if tag == "bound":
            if self.follow(fv[2]) or self.own_object_method(fv[2]):
                return self.invoke(fv[2].node, fv[1], args, kwargs, st, c)
            return self.on_unknown_call(c, fv, args, kwargs, st)
        if tag == "global":
            r = self.builtin(c, fv[1], args, kwargs, st)
            if r is not None:
                return r
            target = self.repo.resolve_name(st.frames[-1].fi.module, fv[1])
            rec = self.record(target, args, kwargs)
            if rec is not None:
                return [(rec, st)]
            made = self.instantiate(target, args, kwargs, st, c)
            if made is not None:
                return made
            made = self.instantiate_exception(target, args, kwargs, st, c)
            if made is not None:
                return made
            if target is None and fv[1] in _BUILTIN_EXCEPTIONS and not kwargs and kwargs is not None and _STAR not in args \
                    and fv[1] not in st.frames[-1].env:
                return [(("record", fv[1], (("args", ("tuple", tuple(args))),)), st)]      # an exception object of the language
            if hasattr(target, "node") and hasattr(target, "qualname") and not hasattr(target, "methods") and self.follow(target):
                return self.invoke_named(target, None, args, kwargs, st, c)
            return self.on_unknown_call(c, fv, args, kwargs, st)
        if tag == "attr":
            recv, name = fv[1], fv[2]
            if _strip(recv) == _SELF and self.cls is not None:
                m = self.cls.lookup(name)
                if m is not None and self.follow(m):
                    decs = m.decorator_names()
                    if "staticmethod" in decs:
                        return self.invoke_named(m, None, args, kwargs, st, c)
                    return self.invoke_named(m, recv, args, kwargs, st, c)
            oc = self.class_of(recv) if recv[0] == "attr" else None
            if oc is not None and oc is not self.cls:
                m = oc.lookup(name)
                if m is not None and not ({"property", "classmethod", "cached_property"} & set(m.decorator_names())) and self.follow_object(oc, m):
                    return self.invoke_named(m, None if "staticmethod" in m.decorator_names() else recv, args, kwargs, st, c)
            if recv[0] == "global" and not kwargs is None:
                ci = self.repo.resolve_name(st.frames[-1].fi.module, recv[1])
                m = ci.lookup(name) if hasattr(ci, "lookup") and hasattr(ci, "methods") else None
                if m is not None and self.follow(m):
                    return self.invoke(m.node, None, args, kwargs, st, c)
            if recv[0] == "record":
                # a method of / a callable kept in an object the executed code created itself
                held = dict(recv[2]).get(name)
                if held is not None:
                    return self.call(c, held, args, kwargs, st)
                ci = self._rec_classes.get(recv[1])
                m = ci.lookup(name) if ci is not None else None
                if m is not None and not ({"property", "classmethod"} & set(m.decorator_names())):
                    return self.invoke(m.node, None if "staticmethod" in m.decorator_names() else recv, args, kwargs, st, c)
            if recv[0] == "dict" and name == "get" and args and _STAR not in args:
                alts = self.index(recv, args[0], st.fork())
                dflt = args[1] if len(args) > 1 else _NONE
                if not (args[0][0] == "const" and len(alts) == 1 and alts[0][0][0] != "unknown"):
                    alts.append((dflt, st))
                return alts
            if _local_container(recv) and name in _MUTATORS | {"popitem", "setdefault", "appendleft", "popleft", "rotate", "extendleft"}:
                # an object created in this very function is changed: nothing leaves the function, but its literal value is stale
                fresh = ("local", self.uid())
                for fr in st.frames:
                    for k, val in list(fr.env.items()):
                        if val == recv:
                            fr.env[k] = fresh
                return [(self.unknown(), st)]
            if name in _PURE_METHODS and recv[0] not in ("unknown", "call"):
                return [(("pcall", fv, tuple(args) + tuple(sorted((kwargs or {}).items(), key=lambda kv: kv[0])), st.epoch), st)]
        return self.on_unknown_call(c, fv, args, kwargs, st)

    def builtin(self, c, name, args, kwargs, st):  # noqa: C901, PLR0911, PLR0912
        if kwargs is None or _STAR in args:
            return [(self.unknown(), st)] if name in _PURE_BUILTINS or name in _SAME_ELEMENTS or name in ("bool", "next", "getattr", "cast") else None
        if name == "bool":
            return [(("truth", args[0]) if args else ("const", False), st)]
        if name == "cast" and len(args) == 2:
            return [(args[1], st)]
        if name == "iter" and len(args) == 2 and not kwargs:
            return [(("itercall", args[0], args[1], c), st)]
        if name in _SAME_ELEMENTS and len(args) == 1 and name != "deque":
            return [(("iter", args[0]) if name == "iter" else ("reversed", args[0]) if name == "reversed" else args[0], st)]
        if name == "next" and args:
            src = args[0]
            out = []
            inner = src[1] if src[0] == "iter" else src
            if inner[0] in ("tuple", "list"):
                if inner[1]:
                    return [(inner[1][0], st)]
                if len(args) > 1:
                    return [(args[1], st)]
                self._raised.append(st)
                return []
            s_none = st.fork()
            for x, s in self.first(src, st):
                if inner[0] not in ("gen", "tuple", "list", "set"):
                    self.assume(inner, True, s)
                out.append((x, s))
            feasible = inner[0] in ("gen",) or self.assume(inner, False, s_none)
            if inner[0] in ("tuple", "list", "set") and inner[1]:
                feasible = False
            if feasible:
                if len(args) > 1:
                    out.append((args[1], s_none))
                else:
                    self._raised.append(s_none)
            return out
        if name == "getattr" and len(args) >= 2 and args[1][0] == "const" and isinstance(args[1][1], str):
            base, attr = args[0], args[1][1]
            if _strip(base) == _SELF and self.cls is not None and self.cls.lookup(attr) is not None:
                return [(("bound", base, self.cls.lookup(attr)), st)]
            out = [(self.read_attr(base, attr, st), st)]
            if len(args) == 3 and _strip(base) != _SELF:
                out = [(("pcall", ("global", "getattr"), tuple(args), st.epoch), st)]
            return out
        if name == "filter" and len(args) == 2 and args[0][0] in _CALLABLE_TAGS:
            return [(("filtered", args[0], args[1], c), st)]
        if name == "map" and len(args) >= 2 and not kwargs and args[0][0] in _CALLABLE_TAGS:
            return [(("mapped", args[0], tuple(args[1:]), c), st)]
        if name in ("all", "any") and len(args) == 1 and not kwargs and args[0][0] in ("tuple", "list"):
            # all((a, b, c)) / any([a, b, c]) over a literal whose elements are already evaluated: the and- / or-chain of their truth values
            stop = name == "any"            # the truth value of an element that decides the result
            out, pending = [], [st]
            for v in args[0][1]:
                nxt = []
                for s in pending:
                    t = self.truth(v, s)
                    if t is None:
                        s2 = s.fork()
                        if self.assume(v, stop, s2):
                            out.append((("const", stop), s2))
                        if self.assume(v, not stop, s):
                            nxt.append(s)
                    elif t == stop:
                        out.append((("const", stop), s))
                    else:
                        nxt.append(s)
                pending = nxt
            out.extend((("const", not stop), s) for s in pending)
            return out
        if name in _PURE_BUILTINS or name in _SAME_ELEMENTS:
            return [(("pcall", ("global", name), tuple(args), st.epoch), st)]
        return None

    def plain_record_class(self, ci) -> bool:
        decs = {(chain(d.func) if isinstance(d, ast.Call) else chain(d)) or "" for d in ci.node.decorator_list}
        return ("NamedTuple" in ci.base_names or any(d.split(".")[-1] == "dataclass" for d in decs)) \
            and not ({"__init__", "__new__", "__post_init__"} & set(ci.methods)) and len(ci.base_names) <= 1

    def immutable_record_class(self, ci) -> bool:
        """a NamedTuple, or a dataclass declared frozen=True, without __init__ / __new__ / __post_init__ (see plain_record_class)"""
        if not hasattr(ci, "annotations") or not hasattr(ci, "methods") or not self.plain_record_class(ci) or ci.all_subclasses() \
                or {"__getattr__", "__getattribute__", "__setattr__"} & set(ci.methods):
            return False
        if "NamedTuple" in ci.base_names:
            return True
        return any(isinstance(d, ast.Call) and (chain(d.func) or "").split(".")[-1] == "dataclass"
                   and any(k.arg == "frozen" and const_value(k.value) is True for k in d.keywords) for d in ci.node.decorator_list)

    def mutable_record_class(self, ci) -> bool:
        """a plain dataclass (see plain_record_class) that is not frozen, has no subclasses and no hooks on attribute access"""
        if "NamedTuple" in ci.base_names or not self.plain_record_class(ci) or self.immutable_record_class(ci) or ci.all_subclasses() \
                or {"__getattr__", "__getattribute__", "__setattr__", "__delattr__"} & set(ci.methods):
            return False
        return not any(isinstance(d, ast.Call) and any(k.arg == "frozen" for k in d.keywords) for d in ci.node.decorator_list)

    def plain_class(self, ci) -> bool:
        init = ci.methods.get("__init__")
        return not (init is None or [b for b in ci.base_names if b != "object"]
                    or {"__new__", "__setattr__", "__getattr__", "__getattribute__"} & set(ci.methods)
                    or ci.module is not self.top.module or ci is self.cls or getattr(ci.node, "decorator_list", None) or _is_generator(init.node))

    def record(self, ci, args, kwargs):
        """the value built by calling a NamedTuple / plain dataclass: ("record", class name, ((field, value), ...)); None when ci is not one"""
        if not hasattr(ci, "annotations") or not hasattr(ci, "methods") or kwargs is None or _STAR in args:
            return None
        if not self.plain_record_class(ci):
            return None
        fields = list(ci.annotations)
        if len(args) > len(fields) or any(k not in fields for k in kwargs):
            return None
        vals = dict(zip(fields, args))
        vals.update(kwargs)
        for f in fields:
            if f not in vals:
                d = ci.attrs.get(f)
                if d is None:
                    return None
                cv = const_value(d)
                if cv is NOCONST:
                    # a default spelled with names of the module (a tuple of named constants): the same value in every instance
                    sv = _static_value(d) if ci.module is self.top.module else None
                    if sv is None:
                        return None
                    vals[f] = sv
                    continue
                vals[f] = ("const", cv)
        self._rec_classes[ci.name] = ci
        if self.mutable_record_class(ci):
            # an object whose fields may be assigned later: it has an identity, and st.objs holds what was stored since (see assign)
            return ("record", ci.name, tuple((f, vals[f]) for f in fields), ("id", self.uid()))
        return ("record", ci.name, tuple((f, vals[f]) for f in fields))

    def exception_class(self, ci) -> bool:
        """
        A repository class that is nothing but an exception: every class of its MRO derives (only) from exception classes of the
        language or from other such classes, has no decorators / metaclass and defines none of the hooks that change what
        construction or attribute access mean. Calling it builds an object (its __init__, if any, is executed); nothing else happens.
        """
        if not hasattr(ci, "methods") or not hasattr(ci, "base_names") or not hasattr(ci, "mro"):
            return False
        key = ("exception-class", id(ci.node))
        if key not in self._globals:
            ok, rooted = True, False
            chain_ = ci.mro()
            for c in chain_:
                if c.node.decorator_list or c.node.keywords or not c.base_names \
                        or {"__new__", "__setattr__", "__getattr__", "__getattribute__", "__init_subclass__", "__class_getitem__"} & set(c.methods) \
                        or any(_is_generator(m.node) for m in c.methods.values()):
                    ok = False
                    break
                for b in c.node.bases:
                    r = self.repo.resolve_class_expr(c.module, b)
                    if r is not None:
                        if not any(r is x for x in chain_):
                            ok = False
                    elif isinstance(b, ast.Name) and b.id in _BUILTIN_EXCEPTIONS and self.repo.resolve_name(c.module, b.id) is None:
                        rooted = True
                    else:
                        ok = False
            self._globals[key] = ok and rooted
        return self._globals[key]

    def instantiate_exception(self, ci, args, kwargs, st, c):
        """
        Call of a (private) exception class: its __init__ - when the repository defines one - is executed on a fresh object, with
        `super().__init__(...)` into the language's exception classes storing `args`; without one the object holds `args`.
        The object is a record of the fields stored. None when ci is not such a class or the call cannot be bound.
        """
        if kwargs is None or _STAR in args or not self.exception_class(ci):
            return None
        init = ci.lookup("__init__")
        self._rec_classes[ci.name] = ci
        if init is None:
            if kwargs:
                return None
            return [(("record", ci.name, (("args", ("tuple", tuple(args))),)), st)]
        obj = ("obj", self.uid(), ci.name)
        out = []
        for _, s in self.invoke(init.node, obj, args, kwargs, st, c):
            fields = tuple((a, val) for (b, a), val in s.objs.items() if b == obj)
            for f, _ in fields:
                s.heap.pop((obj, f), None)
            out.append((("record", ci.name, fields), s))
        return out

    def super_call(self, c, st):
        """
        `super().m(...)` inside a method of an exception class (see exception_class): the next definition of m in the MRO of the
        object is executed; when there is none in the repository, __init__ of the language's exception classes stores `args`.
        None = not such a call.
        """
        f = c.func
        if not (isinstance(f, ast.Attribute) and isinstance(f.value, ast.Call) and isinstance(f.value.func, ast.Name) and f.value.func.id == "super"
                and not f.value.args and not f.value.keywords):
            return None
        fr = st.frames[-1]
        fi = fr.fi
        own = getattr(fi, "cls", None)
        if own is None or isinstance(fi, _LambdaInfo) or "super" in fr.env or not fi.params() or not self.exception_class(own) \
                or self.repo.resolve_name(fi.module, "super") is not None:
            return None
        obj = fr.env.get(fi.params()[0])
        ci = self._rec_classes.get(obj[2]) if obj is not None and obj[0] == "obj" else None
        if ci is None or not self.exception_class(ci) or not any(x is own for x in ci.mro()):
            return None
        mro = ci.mro()
        rest = mro[[i for i, x in enumerate(mro) if x is own][0] + 1:]
        target = next((x.methods[f.attr] for x in rest if f.attr in x.methods), None)
        if target is None and f.attr != "__init__":
            return None
        if any(isinstance(a, ast.Starred) for a in c.args) or any(k.arg is None for k in c.keywords):
            return None
        out = []
        for vals, s in self.ev_seq(list(c.args) + [k.value for k in c.keywords], st):
            args = list(vals[:len(c.args)])
            kwargs = {k.arg: v for k, v in zip(c.keywords, vals[len(c.args):])}
            if target is not None:
                out.extend(self.invoke(target.node, obj, args, kwargs, s, c))
            elif kwargs:
                return None
            else:
                s.objs[(obj, "args")] = ("tuple", tuple(args))
                out.append((_NONE, s))
        return out

    def makes_object(self, fv, kwargs, st) -> bool:
        """the call builds an object that is then a tracked value (NamedTuple / dataclass / plain class of the module), see record / instantiate"""
        if fv[0] != "global" or kwargs is None:
            return False
        ci = self.repo.resolve_name(st.frames[-1].fi.module, fv[1])
        if not hasattr(ci, "methods") or not hasattr(ci, "base_names"):
            return False
        return self.plain_record_class(ci) or self.plain_class(ci)

    def field_class(self, attr: str):
        """
        The class of the object held in self.<attr> when that is certain: every store to an attribute of that name on self (in the
        class of self, its bases and subclasses) is `self.<attr> = Ctor(...)` of one and the same repository class that nobody
        subclasses, and nothing stores to that attribute name through another base expression.
        """
        key = ("field", attr)
        if key in self._globals:
            return self._globals[key]
        found = None
        ok = self.cls is not None
        related = set()
        if ok:
            related = {id(c.node) for c in self.cls.mro()} | {id(c.node) for c in self.cls.all_subclasses()}
        n_stores = 0
        for fi, a in (_attribute_stores(self.ctx).get(attr, ()) if ok else ()):
            on_self = isinstance(a.value, ast.Name) and a.value.id == "self" and fi is not None and fi.cls is not None \
                and fi.params()[:1] == ["self"] and enclosing_function(fi.node) is None
            if on_self and id(fi.cls.node) not in related:
                continue                    # the field of that name of an unrelated class
            stmt = enclosing_stmt(a)
            val = getattr(stmt, "value", None)
            single = (isinstance(stmt, ast.Assign) and len(stmt.targets) == 1 and stmt.targets[0] is a) \
                or (isinstance(stmt, ast.AnnAssign) and stmt.target is a)
            val = strip_cast(val) if val is not None else None
            ci = self.repo.resolve_class_expr(fi.module, val.func) if on_self and single and isinstance(val, ast.Call) else None
            if ci is None or (found is not None and ci is not found):
                ok = False
                break
            found = ci
            n_stores += 1
        if not ok or found is None or not n_stores or found.all_subclasses() \
                or {"__getattr__", "__getattribute__", "__setattr__", "__new__"} & {n for c in found.mro() for n in c.methods}:
            found = None
        self._globals[key] = found
        return found

    def class_of(self, v):
        """ClassInfo of the object value v when it is certain (self, or an object held in a field of self), else None"""
        b = _strip(v)
        if b == _SELF:
            return self.cls
        if b[0] == "attr" and b[1] == _SELF and self.cls is not None:
            return self.field_class(b[2])
        return None

    def object_property(self, base, name):
        """the getter when `base.name` reads a property of self / of an object held in a field of self, and the getter may be followed"""
        if base[0] not in ("param", "attr"):
            return None
        ci = self.class_of(base)
        m = ci.lookup(name) if ci is not None else None
        if m is None or not ({"property", "cached_property", "functools.cached_property"} & set(m.decorator_names())) or _is_generator(m.node):
            return None
        if ci is self.cls:
            return m if self.follow(m) else None
        return m if self.follow_object(ci, m) else None

    def record_property(self, base, name):
        """the getter when `base.name` reads a property of an object the executed code made itself"""
        if base[0] != "record" or name in dict(base[2]):
            return None
        ci = self._rec_classes.get(base[1])
        m = ci.lookup(name) if ci is not None else None
        return m if m is not None and {"property", "cached_property", "functools.cached_property"} & set(m.decorator_names()) \
            and not _is_generator(m.node) else None

    def own_object_method(self, fi) -> bool:
        """a method of a class of which the executed code made an instance"""
        return fi is not None and getattr(fi, "cls", None) is not None and self._rec_classes.get(fi.cls.name) is fi.cls

    def instantiate(self, ci, args, kwargs, st, c):
        """
        Call of a plain class of the analysed module (no bases, own __init__): __init__ is executed on a fresh object and the
        object is returned as a record of the fields it stored. None when the class is not of that kind.
        """
        if not hasattr(ci, "methods") or not hasattr(ci, "base_names") or kwargs is None or _STAR in args:
            return None
        if not self.plain_class(ci):
            return None
        init = ci.methods["__init__"]
        obj = ("obj", self.uid(), ci.name)
        self._rec_classes[ci.name] = ci
        out = []
        for _, s in self.invoke(init.node, obj, args, kwargs, st, c):
            fields = tuple((a, val) for (b, a), val in s.objs.items() if b == obj)
            for f, _ in fields:
                s.heap.pop((obj, f), None)
            if ci.all_subclasses() or "__delattr__" in ci.methods:
                out.append((("record", ci.name, fields), s))
            else:
                out.append((("record", ci.name, fields, ("id", obj[1])), s))
        return out

    def bind(self, fnode, recv, args, kwargs, st):
        a = fnode.args
        names = [x.arg for x in a.posonlyargs + a.args]
        env = {}
        pos = ([recv] if recv is not None else []) + list(args)
        vague = kwargs is None
        if _STAR in pos:
            pos = pos[:pos.index(_STAR)]
            vague = True
        for n, v in zip(names, pos):
            env[n] = v
        if len(pos) > len(names):
            if a.vararg is None:
                raise _Und(f"too many arguments for {getattr(fnode, 'name', 'lambda')}")
            env[a.vararg.arg] = ("tuple", tuple(pos[len(names):]))
        elif a.vararg is not None:
            env[a.vararg.arg] = ("tuple", ()) if not vague else self.unknown()
        extra = {}
        for k, v in (kwargs or {}).items():
            if k in names or k in [x.arg for x in a.kwonlyargs]:
                env[k] = v
            else:
                extra[k] = v
        if a.kwarg is not None:
            env[a.kwarg.arg] = ("dict", tuple((("const", k), v) for k, v in extra.items())) if not vague else self.unknown()
        dflt = dict(zip(names[len(names) - len(a.defaults):], a.defaults))
        dflt.update({x.arg: d for x, d in zip(a.kwonlyargs, a.kw_defaults) if d is not None})
        for n in names + [x.arg for x in a.kwonlyargs]:
            if n in env:
                continue
            if vague:
                env[n] = self.unknown()
            elif n in dflt:
                d = dflt[n]
                cv = const_value(d)
                env[n] = ("const", cv) if cv is not NOCONST else (("global", d.id) if isinstance(d, ast.Name) else self.unknown())
            else:
                env[n] = self.unknown()
        return env

    def invoke(self, fnode, recv, args, kwargs, st, c, captured=None):
        fi = self.repo.info(fnode) if not isinstance(fnode, ast.Lambda) else None
        if len(st.frames) >= self.MAX_DEPTH or any(f.fi is not None and f.fi.node is fnode for f in st.frames):
            raise _Und(f"recursive or too deep call of {getattr(fnode, 'name', 'lambda')}")
        env = self.bind(fnode, recv, args, kwargs, st)
        self.entered.add(id(fnode))
        if not _is_generator(fnode) and not isinstance(fnode, ast.Lambda):
            self.count_call(c, 2)
        if isinstance(fnode, ast.Lambda):
            fi = _LambdaInfo(fnode, st.frames[-1].fi)
        if _is_generator(fnode):
            g = ("gen", self.uid())
            self.gens[g] = (fi, env, captured)
            return [(g, st)]
        st.frames.append(_Frame(fi, env, None, captured))
        out = []
        for kind, s in self.run(st):
            s.frames.pop()
            if kind == "return":
                v, s.ret = s.ret, _NONE
                out.append((v, s))
            else:
                s.ret = _NONE
                self._raised.append(s)
        return out

    def run_generator(self, g, st):
        fi, env, captured = self.gens[g]
        if len(st.frames) >= self.MAX_DEPTH or any(f.fi is fi for f in st.frames):
            raise _Und("recursive generator")
        collector = []
        s = st.fork()
        s.frames.append(_Frame(fi, dict(env), collector, captured))
        n_ev, n_eff = len(st.events), len(st.effects)
        saved, self._raised = self._raised, []
        try:
            ends = self.run(s)
        finally:
            self._raised = saved
        out = []
        for v, snap in collector:
            snap.frames.pop()
            out.append((v, snap))
        # effects of the generator body after its last yield still happen when the generator is exhausted
        for _, e in ends:
            for x in out:
                x[1].events.extend(y for y in e.events[n_ev:] if y not in x[1].events)
                x[1].effects.extend(y for y in e.effects[n_eff:] if y not in x[1].effects[n_eff:])
        self._gen_ends = [e for _, e in ends]
        return out

    def enter_context(self, v, st, c):
        """
        `with v [as x]` over a private context manager the executed code made itself: [(value bound to x, state in which the block
        starts)], None when v is not one. A generator of a @contextmanager function runs to its yield (the yielded value is bound);
        an object of a private class runs __enter__. What happens on leaving the block - the generator's code after the yield,
        __exit__ - is executed too, on a copy of the state: every effect site in it is judged with the facts of its own path and
        its effects count for every path through the block; facts it assumes do not leak into the block.
        """
        if v[0] == "gen" and v in self.gens:
            gfi = self.gens[v][0]
            names = {d.split(".")[-1] for d in gfi.decorator_names()} if hasattr(gfi, "decorator_names") else set()
            if not ({"contextmanager", "asynccontextmanager"} & names):
                return None
            return list(self.run_generator(v, st))
        if v[0] == "record":
            ci = self._rec_classes.get(v[1])
            enter = ci.lookup("__enter__") if ci is not None else None
            leave = ci.lookup("__exit__") if ci is not None else None
            if enter is None or leave is None:
                return None
            out = []
            for bound, s in self.invoke(enter.node, v, [], {}, st, c):
                n_ev, n_eff = len(s.events), len(s.effects)
                s_exit = s.fork()
                saved, self._raised = self._raised, []
                try:
                    ends = [x[1] for x in self.invoke(leave.node, v, [_NONE, _NONE, _NONE], {}, s_exit, c)]
                    ends.extend(self._raised)
                finally:
                    self._raised = saved
                for e in ends:
                    s.events.extend(y for y in e.events[n_ev:] if y not in s.events)
                    s.effects.extend(y for y in e.effects[n_eff:] if y not in s.effects[n_eff:])
                out.append((bound, s))
            return out
        return None

    def exhaust(self, g, st) -> None:
        """the generator is consumed as a whole by something that is not followed (list(), *unpacking, an unknown call): all its effects may happen"""
        n_ev, n_eff = len(st.events), len(st.effects)
        alts = self.run_generator(g, st)
        for e in [x[1] for x in alts] + list(self._gen_ends):
            st.events.extend(y for y in e.events[n_ev:] if y not in st.events)
            st.effects.extend(y for y in e.effects[n_eff:] if y not in st.effects[n_eff:])
        st.epoch += 1
        st.qver += 1
        st.heap.clear()

    # ---------------------------------------------------------------- statements
    def assign(self, t, v, st) -> None:
        if isinstance(t, ast.Name):
            st.frames[-1].env[t.id] = v
        elif isinstance(t, (ast.Tuple, ast.List)):
            if any(isinstance(x, ast.Starred) for x in t.elts):
                star = next(i for i, x in enumerate(t.elts) if isinstance(x, ast.Starred))
                for i, x in enumerate(t.elts):
                    if i < star:
                        self.assign(x, ("sub", v, ("const", i)), st)
                    elif i == star:
                        self.assign(x.value, self.unknown(), st)
                    else:
                        self.assign(x, ("sub", v, ("const", i - len(t.elts))), st)
            elif v[0] in ("tuple", "list") and len(v[1]) == len(t.elts):
                for x, y in zip(t.elts, v[1]):
                    self.assign(x, y, st)
            elif v[0] == "record" and len(v[2]) == len(t.elts):
                for x, (_, y) in zip(t.elts, v[2]):
                    self.assign(x, y, st)
            else:
                for i, x in enumerate(t.elts):
                    self.assign(x, ("sub", v, ("const", i)), st)
        elif isinstance(t, ast.Attribute):
            for b, s in self.ev(t.value, st)[:1]:
                if b[0] == "record":
                    # an object the executed code made itself (it has an identity): the store is seen by every later read through any
                    # alias of the object on this path; once the object was handed to code that is not executed here, nothing is known
                    ci = self._rec_classes.get(b[1])
                    if len(b) < 4 or ci is None or ci.lookup(t.attr) is not None or t.attr.startswith("__"):
                        raise _Und(f"field `{t.attr}` of a local object is rebound")
                    s.objs[(b[3], t.attr)] = v
                    self.on_store(t, b, t.attr, v, s)
                    continue
                self.escapes(v, s)
                s.heap[(_strip(b), t.attr)] = v
                if b[0] == "obj":
                    s.objs[(b, t.attr)] = v
                self.on_store(t, b, t.attr, v, s)
        elif isinstance(t, ast.Subscript):
            for vals, s in self.ev_seq([t.value, t.slice], st)[:1]:
                if not _local_container(vals[0]):
                    self.escapes(v, s)
                self.on_store(t, vals[0], vals[1], v, s)
        elif isinstance(t, ast.Starred):
            self.assign(t.value, self.unknown(), st)

    def on_store(self, t, base, name, v, st) -> None:
        return None

    def exec(self, s, st):  # noqa: C901, PLR0911, PLR0912
        """[(state)] after the simple statement / expression s; raising outcomes go to self._raised"""
        if isinstance(s, ast.expr):
            out = []
            for v, s2 in self.ev(s, st):
                p = parent(s)
                if isinstance(p, (ast.For, ast.AsyncFor)) and p.iter is s:
                    s2.frames[-1].iters[id(p)] = v
                out.append(s2)
            return out
        if isinstance(s, ast.Assign):
            out = []
            for v, s2 in self.ev(s.value, st):
                for t in s.targets:
                    self.assign(t, v, s2)
                out.append(s2)
            return out
        if isinstance(s, ast.AnnAssign):
            if s.value is None:
                return [st]
            out = []
            for v, s2 in self.ev(s.value, st):
                self.assign(s.target, v, s2)
                out.append(s2)
            return out
        if isinstance(s, ast.AugAssign):
            out = []
            for v, s2 in self.ev(s.value, st):
                if isinstance(s.target, ast.Name):
                    old = self.lookup(s.target.id, s2)
                    self.assign(s.target, ("binop", type(s.op).__name__, old, v), s2)
                else:
                    self.assign(s.target, self.unknown(), s2)
                out.append(s2)
            return out
        if isinstance(s, ast.Expr):
            return [s2 for _, s2 in self.ev(s.value, st)]
        if isinstance(s, ast.Return):
            out = []
            for v, s2 in self.ev(s.value, st):
                s2.ret = v
                out.append(s2)
            return out
        if isinstance(s, ast.Raise):
            for v, s2 in (self.ev(s.exc, st) if s.exc is not None else [(None, st)]):
                s2.exc_value = v
                self._raised.append(s2)
            return []
        if isinstance(s, ast.Assert):
            self._raised.append(st)
            return []
        if isinstance(s, (ast.FunctionDef, ast.AsyncFunctionDef)):
            st.frames[-1].env[s.name] = self.closure(s, st) if all(_transparent_decorator(d) for d in s.decorator_list) else self.unknown()
            return [st]
        if isinstance(s, ast.ClassDef):
            st.frames[-1].env[s.name] = self.unknown()
            return [st]
        if isinstance(s, (ast.With, ast.AsyncWith)):
            out = [st]
            for item in s.items:
                nxt = []
                for s2 in out:
                    for v, s3 in self.ev(item.context_expr, s2):
                        managed = self.enter_context(v, s3, item.context_expr)
                        if managed is not None:
                            for bound, s4 in managed:
                                if item.optional_vars is not None:
                                    self.assign(item.optional_vars, bound, s4)
                                nxt.append(s4)
                            continue
                        if item.optional_vars is not None:
                            self.assign(item.optional_vars, self.unknown(), s3)
                        nxt.append(s3)
                out = nxt
            return out
        if isinstance(s, (ast.Break, ast.Continue, ast.Pass)):
            return [st]
        if isinstance(s, (ast.Import, ast.ImportFrom)):
            for al in s.names:
                st.frames[-1].env[(al.asname or al.name).split(".")[0]] = ("global", al.asname or al.name)
                if isinstance(s, ast.ImportFrom) and not s.level:
                    self._limports[al.asname or al.name] = (s.module or "", al.name)
                elif isinstance(s, ast.Import):
                    self._limports[al.asname or al.name.split(".")[0]] = (al.name if al.asname else al.name.split(".")[0], None)
            return [st]
        if isinstance(s, ast.Delete):
            for t in s.targets:
                if isinstance(t, ast.Name):
                    st.frames[-1].env[t.id] = self.unknown()
                elif isinstance(t, ast.Subscript):
                    for vals, s2 in self.ev_seq([t.value, t.slice], st)[:1]:
                        self.on_store(t, vals[0], vals[1], None, s2)
                elif isinstance(t, ast.Attribute):
                    for b, s2 in self.ev(t.value, st)[:1]:
                        self.on_store(t, b, t.attr, None, s2)
            return [st]
        if isinstance(s, (ast.Global, ast.Nonlocal)):
            raise _Und("global / nonlocal rebinding")
        raise _Und(f"statement {type(s).__name__}")

    def havoc(self, loop, st) -> None:
        """at a loop head: what the body assigns is unknown (any iteration), fields may have changed"""
        fr = st.frames[-1]
        body = list(loop.body)
        names = _stored_names(body)
        if isinstance(loop, (ast.For, ast.AsyncFor)):
            names |= {n.id for n in ast.walk(loop.target) if isinstance(n, ast.Name)}
        else:
            names |= {n.target.id for n in ast.walk(loop.test) if isinstance(n, ast.NamedExpr)}
        for n in names:
            if n in self.locals_of(fr.fi.node):
                fr.env[n] = ("loopvar", n, fr.fi, self.uid())
        st.epoch += 1
        st.qver += 1
        st.heap.clear()

    def match_stmt(self, m, st):
        """[(("idx", i), state)]: case i of the match statement is entered (i = number of cases: no case matched)"""
        outs = []
        for v, s in self.ev(m.subject, st):
            remaining = [s]
            for i, case in enumerate(m.cases):
                nxt = []
                for s0 in remaining:
                    for hit, s1 in self.match_pattern(case.pattern, v, s0):
                        if not hit:
                            nxt.append(s1)
                        elif case.guard is None:
                            outs.append((("idx", i), s1))
                        else:
                            for b, s2 in self.test(case.guard, s1):
                                (outs if b else nxt).append(((("idx", i), s2)) if b else s2)
                remaining = nxt
            outs.extend((("idx", len(m.cases)), s0) for s0 in remaining)
        return outs

    def match_pattern(self, pat, v, st):
        """[(matched, state)] for one pattern against the value v"""
        def decide(val, s):
            t = self.truth(val, s)
            if t is not None:
                return [(t, s)]
            s2 = s.fork()
            out = []
            if self.assume(val, True, s):
                out.append((True, s))
            if self.assume(val, False, s2):
                out.append((False, s2))
            return out
        if isinstance(pat, ast.MatchValue):
            out = []
            for pv, s in self.ev(pat.value, st):
                out.extend(decide(("cmp", "eq", v, pv), s))
            return out
        if isinstance(pat, ast.MatchSingleton):
            return decide(("cmp", "is", v, ("const", pat.value)), st)
        if isinstance(pat, ast.MatchAs) and pat.pattern is None:
            if pat.name:
                st.frames[-1].env[pat.name] = v
            return [(True, st)]
        if isinstance(pat, ast.MatchAs):
            out = []
            for hit, s in self.match_pattern(pat.pattern, v, st):
                if hit and pat.name:
                    s.frames[-1].env[pat.name] = v
                out.append((hit, s))
            return out
        if isinstance(pat, ast.MatchOr):
            out = []
            remaining = [st]
            for sub in pat.patterns:
                nxt = []
                for s0 in remaining:
                    for hit, s1 in self.match_pattern(sub, v, s0):
                        (out if hit else nxt).append((True, s1) if hit else s1)
                remaining = nxt
            out.extend((False, s0) for s0 in remaining)
            return out
        if isinstance(pat, ast.MatchClass) and v[0] == "record" and chain(pat.cls) is not None and chain(pat.cls).split(".")[-1] == v[1] \
                and len(pat.patterns) <= len(v[2]) and all(k in dict(v[2]) for k in pat.kwd_attrs):
            subs = [(sub, v[2][i][1]) for i, sub in enumerate(pat.patterns)] + [(sub, dict(v[2])[k]) for k, sub in zip(pat.kwd_attrs, pat.kwd_patterns)]
            out = []
            live = [st]
            for sub, val in subs:
                nxt = []
                for s0 in live:
                    for hit, s1 in self.match_pattern(sub, val, s0):
                        if hit:
                            nxt.append(s1)
                        else:
                            out.append((False, s1))
                live = nxt
            out.extend((True, s0) for s0 in live)
            return out
        if isinstance(pat, (ast.MatchSequence,)) and v[0] in ("tuple", "list", "record") and not any(isinstance(x, ast.MatchStar) for x in pat.patterns):
            items = [val for _, val in v[2]] if v[0] == "record" else list(v[1])
            if len(items) != len(pat.patterns):
                return [(False, st)]
            out = []
            live = [st]
            for sub, val in zip(pat.patterns, items):
                nxt = []
                for s0 in live:
                    for hit, s1 in self.match_pattern(sub, val, s0):
                        if hit:
                            nxt.append(s1)
                        else:
                            out.append((False, s1))
                live = nxt
            out.extend((True, s0) for s0 in live)
            return out
        # structural patterns are not modelled: either outcome, captured names unknown
        for n in ast.walk(pat):
            for field in ("name", "rest"):
                if isinstance(getattr(n, field, None), str):
                    st.frames[-1].env[getattr(n, field)] = self.unknown()
        return [(True, st), (False, st.fork())]

    def step(self, cfg, node, st):  # noqa: C901, PLR0912
        """[(edge selector, state)]: selector None = unlabelled edges, True / False = condition edges, "exc" = exceptional edges"""
        kind = node.kind
        if kind in ("entry", "join"):
            return [(None, st)]
        if kind == "dispatch":
            return [("exc", st)]
        if kind == "handler":
            val, st.exc_value = st.exc_value, None
            if node.ast.name:
                # `except X as e` entered by a path that executed `raise <object of the private class X>`: e is that very object
                types = _handler_types(node.ast.type)
                known = val is not None and val[0] == "record" and val[1] in types and self._rec_classes.get(val[1]) is not None \
                    and self.exception_class(self._rec_classes[val[1]])
                st.frames[-1].env[node.ast.name] = val if known else self.unknown()
            self.caught(st, _handler_types(node.ast.type))
            return [(None, st)]
        if kind not in ("entry", "join", "dispatch"):
            st.exc_value = None         # a statement runs (a finally block on the way out): whatever is raised from here on is another exception
        has_exc = any(lab == "exc" and v is not cfg.raise_exit for v, lab in node.succ) \
            or (any(lab == "exc" for _, lab in node.succ) and _suppressor(node.ast) is not None)
        pre = st.fork() if has_exc else None
        saved, self._raised = self._raised, []
        try:
            if kind == "stmt" and isinstance(parent(node.ast), ast.Match) and parent(node.ast).subject is node.ast:
                outs = self.match_stmt(parent(node.ast), st)
            elif kind == "stmt":
                outs = [(None, s) for s in self.exec(node.ast, st)]
            elif kind == "cond":
                outs = list(self.test(node.ast, st))
            elif kind == "loop":
                fr = st.frames[-1]
                cnt = fr.visits.get(node.id, 0)
                fr.visits[node.id] = cnt + 1
                outs = []
                if cnt < 2:
                    loop = node.ast
                    again = self.iterates(cfg, node)        # can a second iteration begin?
                    if isinstance(loop, ast.While):
                        if cnt == 0 and again:
                            self.havoc(loop, st)
                        outs = [(None, st)]
                    else:
                        iv = fr.iters.get(id(loop), self.unknown())
                        if not (cnt == 0 and iv[0] in ("tuple", "list") and iv[1]):
                            outs.append((False, st.fork()))
                        if cnt == 0:
                            if again:
                                self.havoc(loop, st)
                            for v, s in (self.elements(iv, st) if again else self.first(iv, st)):
                                self.assign(loop.target, v, s)
                                outs.append((True, s))
            else:
                raise _Und(f"cfg node {kind}")
            raised = self._raised
        finally:
            self._raised = saved
        if has_exc:
            # the statement may also be left through its exceptional edge: bindings of the statement not made, its effects counted
            for _, s in outs:
                pre.events.extend(x for x in s.events if x not in pre.events)
                pre.effects.extend(s.effects[len(pre.effects):])
            pre.exc_from = node.ast
            pre.exc_value = None
            outs.append(("exc", pre))
        if raised:
            sel = "exc" if any(lab == "exc" for _, lab in node.succ) else "raise"
            for s in raised:
                s.exc_from = None       # raised by next() / raise / assert: nothing is known from the exception type
            outs.extend((sel, s) for s in raised)
        return outs

    def caught(self, st, types) -> None:
        """
        An exception of one of `types` left the statement st.exc_from and is handled here. When that statement makes no call and
        has exactly one item read `base[key]`, a KeyError says `key not in base` and an IndexError on [0] / [-1] says `base` is empty.
        """
        stmt, st.exc_from = st.exc_from, None
        st.exc_value = None
        if stmt is None or not types or not set(types) <= {"KeyError", "IndexError"} or len(set(types)) != 1:
            return
        if isinstance(stmt, (ast.With, ast.AsyncWith, ast.For, ast.AsyncFor, ast.While, ast.Try, ast.If, ast.Match)):
            return
        subs = [n for n in walk_no_nested(stmt) if isinstance(n, ast.Subscript) and isinstance(n.ctx, ast.Load) and not isinstance(n.slice, ast.Slice)]
        if len(subs) != 1 or any(isinstance(n, (ast.Call, ast.Await, ast.Yield, ast.YieldFrom, ast.NamedExpr, ast.BoolOp, ast.IfExp, ast.Lambda,
                                                ast.ListComp, ast.SetComp, ast.DictComp, ast.GeneratorExp)) for n in walk_no_nested(stmt)):
            return
        got = self.ev_seq([subs[0].value, subs[0].slice], st)
        if len(got) != 1:
            return
        (base, key), _ = got[0]
        if types[0] == "KeyError":
            self.assume(("cmp", "in", key, base), False, st)
        elif key in (("const", 0), ("const", -1)):
            self.assume(base, False, st)

    # ---------------------------------------------------------------- private exception classes: closed world
    def count_call(self, c, slot: int) -> None:
        if c is None:
            return
        rec = self._calls_seen.get(id(c))
        if rec is None:
            f = getattr(c, "func", None)
            rec = self._calls_seen[id(c)] = [f.attr if isinstance(f, ast.Attribute) else f.id if isinstance(f, ast.Name) else None, 0, 0]
        rec[slot] += 1

    def cw_handler(self, fi, h) -> bool:
        """
        `except X [, Y ...]` where every class named is a private exception class of the repository for which the closed-world
        argument holds (closed_world): such an exception exists only where a `raise X(...)` statement made it, so the handler is
        entered only from a `raise` the interpreter executed itself - or from a call it did not enter that can reach one (checked
        after the run, see start: the names closed_world returns must not be among the calls that were not entered).
        """
        key = ("cw-handler", id(h))
        if key not in self._globals:
            names = None
            if h.type is not None and all(isinstance(e, ast.Name) for e in (h.type.elts if isinstance(h.type, ast.Tuple) else [h.type])):
                names = self.closed_world(getattr(fi, "module", None), _handler_types(h.type))
            self._globals[key] = names
        names = self._globals[key]
        if names is None:
            return False
        self._cw_used |= names
        return True

    def _mentions(self, name: str):
        """every node of the repository that spells `name`: identifiers, attribute names, string constants, import aliases, definitions"""
        key = ("mentions", name)
        if key not in self._globals:
            out = []
            for m in self.repo.modules.values():
                if name not in m.src and not any(name == f.name for f in m.all_functions):
                    continue
                for n in ast.walk(m.tree):
                    if (isinstance(n, ast.Name) and n.id == name) or (isinstance(n, ast.Attribute) and n.attr == name) \
                            or (isinstance(n, ast.Constant) and n.value == name and isinstance(n.value, str)) \
                            or (isinstance(n, ast.alias) and (n.name == name or n.asname == name or n.name.endswith("." + name))) \
                            or (isinstance(n, (ast.FunctionDef, ast.AsyncFunctionDef, ast.ClassDef)) and n.name == name) \
                            or (isinstance(n, ast.arg) and n.arg == name) or (isinstance(n, ast.keyword) and n.arg == name) \
                            or (isinstance(n, (ast.Global, ast.Nonlocal)) and name in n.names) \
                            or (isinstance(n, ast.ExceptHandler) and n.name == name) \
                            or (isinstance(n, (ast.MatchAs, ast.MatchStar)) and n.name == name) or (isinstance(n, ast.MatchMapping) and n.rest == name):
                        out.append((m, n))
            self._globals[key] = out
        return self._globals[key]

    def closed_world(self, module, types):  # noqa: C901, PLR0911, PLR0912, PLR0915
        """
        The classes named by `types` (resolved in `module`) and their subclasses are PRIVATE exception classes - pure exception classes
        (exception_class) whose name or defining module starts with an underscore - and every spelling of their names in the repository
        is a class definition of the family, `raise X` / `raise X(...)`, a type of an `except` clause, or a plain from-import. Then
        objects of these classes are made only by those raise statements and immediately thrown; a handler that catches one either
        binds no name or reads fields of the object only (so no object is kept and thrown again elsewhere), or its function is treated
        as raising it. Returns the names of the functions out of which such an exception can propagate: functions with a raise site /
        a call by one of those names that is not enclosed in a try that catches the whole family without raising in the handler. These
        functions are plain synchronous functions (no generator, coroutine, property or other decorator, no special method) and their
        names are spelled only as the callee of direct calls (never taken as values, never in strings), so they run only when a call
        spells their name. None = the argument is not established (the caller keeps the over-approximation).
        """
        if module is None or not types:
            return None
        key = ("closed-world", id(module), tuple(sorted(types)))
        if key in self._globals:
            return self._globals[key]
        self._globals[key] = None
        family = []
        for t in types:
            ci = self.repo.resolve_name(module, t)
            if not hasattr(ci, "methods") or not hasattr(ci, "all_subclasses"):
                return None
            for x in [ci, *ci.all_subclasses()]:
                if not any(x is y for y in family):
                    family.append(x)
        fam_names = {x.name for x in family}
        for x in family:
            base = x.module.relpath.rsplit("/", 1)[-1]
            if not self.exception_class(x) or not (x.name.startswith("_") or base.startswith("_")) or x.name.startswith("__") \
                    or enclosing_function(x.node) is not None:
                return None
        raises = []
        for name in fam_names:
            for _, n in self._mentions(name):
                p = parent(n)
                if isinstance(n, ast.ClassDef):
                    if not any(n is x.node for x in family):
                        return None
                elif isinstance(n, ast.alias):
                    if not isinstance(p, ast.ImportFrom) or n.asname is not None or n.name != name:
                        return None
                elif not isinstance(n, ast.Name) or not isinstance(n.ctx, ast.Load):
                    return None
                elif isinstance(p, ast.Raise) and p.exc is n:
                    raises.append(p)
                elif isinstance(p, ast.Call) and p.func is n and isinstance(parent(p), ast.Raise) and parent(p).exc is p:
                    raises.append(parent(p))
                elif isinstance(p, ast.ExceptHandler) and p.type is n:
                    pass
                elif isinstance(p, ast.Tuple) and isinstance(parent(p), ast.ExceptHandler) and parent(p).type is p:
                    pass
                elif isinstance(p, ast.ClassDef) and n in p.bases and any(p is x.node for x in family):
                    pass
                else:
                    return None

        def covers(h) -> bool:
            if h.type is None:
                return True
            ts = set(_handler_types(h.type))
            if ts & {"Exception", "BaseException"}:
                return True
            return all(any(c.name in ts for c in x.mro()) for x in family)

        def handler_ok(h) -> bool:
            """the handler does not keep the exception object: the bound name is only read for its fields (or handed to the logger)"""
            if not h.name:
                return True
            private = h.type is not None and set(_handler_types(h.type)) <= fam_names
            for x in ast.walk(h):
                if isinstance(x, ast.Name) and x.id == h.name:
                    p = parent(x)
                    if isinstance(p, ast.Attribute) and p.value is x and isinstance(p.ctx, ast.Load) and not p.attr.startswith("__") \
                            and not (isinstance(parent(p), ast.Call) and parent(p).func is p):
                        continue
                    if not private and isinstance(p, ast.Call) and x in p.args and (chain(p.func) or "").startswith(_LOG_PREFIX):
                        continue
                    return False
            return True

        def fate(node):
            """"caught" / "out" (propagates out of the enclosing function) / None (undecided) for an exception thrown at node"""
            child = node
            for a in ancestors(node):
                if isinstance(a, (ast.FunctionDef, ast.AsyncFunctionDef)):
                    return "out"
                if isinstance(a, (ast.Lambda, ast.ClassDef)) or type(a).__name__ == "TryStar":
                    return None
                if isinstance(a, ast.Try) and any(child is b for b in a.body):
                    for h in a.handlers:
                        if covers(h):
                            if not handler_ok(h):
                                return None
                            if any(isinstance(x, ast.Raise) for x in ast.walk(h)):
                                break               # may be thrown again: look further out
                            return "caught"
                        if h.type is not None and set(_handler_types(h.type)) & fam_names and not handler_ok(h):
                            return None
                child = a
            return None

        out_funcs, work = [], []

        def thrown_at(node) -> bool:
            f = fate(node)
            if f is None:
                return False
            if f == "out":
                g = enclosing_function(node)
                if not any(g is x for x in out_funcs):
                    out_funcs.append(g)
                    work.append(g)
            return True

        for r in raises:
            if not thrown_at(r):
                return None
        while work:
            g = work.pop()
            if len(out_funcs) > 12 or not isinstance(g, ast.FunctionDef) or _is_generator(g) or g.name.startswith("__") \
                    or any((chain(d) or "?") not in ("staticmethod", "classmethod") for d in g.decorator_list):
                return None
            sites = self._mentions(g.name)
            if len(sites) > 60:
                return None
            for _, n in sites:
                p = parent(n)
                if isinstance(n, ast.FunctionDef):
                    continue                # this function, or another one of the same name (a call by that name counts for both)
                if isinstance(n, ast.alias):
                    if not isinstance(p, ast.ImportFrom) or n.asname is not None or n.name != g.name:
                        return None
                    continue
                if not isinstance(n, (ast.Name, ast.Attribute)) or not isinstance(n.ctx, ast.Load) or not isinstance(p, ast.Call) or p.func is not n:
                    return None
                if not thrown_at(p):
                    return None
        names = frozenset(g.name for g in out_funcs)
        self._globals[key] = names
        return names

    def run(self, st):
        """all paths of the function in the top frame of st: [("return" | "raise", state)]"""
        fr = st.frames[-1]
        if isinstance(fr.fi, _LambdaInfo):
            out = []
            for v, s in self.ev(fr.fi.node.body, st):
                s.ret = v
                out.append(("return", s))
            return out
        cfg = self.ctx.cfg(fr.fi)
        out = []
        work = [(cfg.entry, st)]
        while work:
            node, s = work.pop()
            self.steps += 1
            if self.steps > self.MAX_STEPS:
                raise _Und("too many symbolic steps")
            if node is cfg.exit:
                out.append(("return", s))
                continue
            if node is cfg.raise_exit:
                out.append(("raise", s))
                continue
            for sel, s2 in self.step(cfg, node, s):
                if sel in ("raise", "exc") and node.ast is not None:
                    # inside `with suppress(...)`: the exception may end the with block instead of propagating
                    w = _suppressor(node.ast)
                    if w is not None and (sel == "raise" or node.kind != "dispatch" or any(lab == "exc" and v.kind != "handler" for v, lab in node.succ)):
                        s3 = s2.fork()
                        self.caught(s3, w[1])
                        work.append((_after_node(cfg, w[0]), s3))
                if sel == "raise":
                    out.append(("raise", s2))
                    continue
                if isinstance(sel, tuple):
                    targets = [node.succ[sel[1]][0]]
                elif sel == "exc":
                    targets = [v for v, lab in node.succ if lab == "exc"]
                elif sel is None:
                    targets = [v for v, lab in node.succ if lab is None]
                else:
                    targets = [v for v, lab in node.succ if lab is sel]
                if sel == "exc" and s2.exc_from is not None and s2.exc_value is None and not self._cw_off:
                    # an exception nobody saw being raised (from code that is not executed here) does not enter a handler that names
                    # only private exception classes whose every `raise` is in executed code (see closed_world)
                    targets = [v for v in targets if not (v.kind == "handler" and self.cw_handler(fr.fi, v.ast))]
                for i, v in enumerate(targets):
                    work.append((v, s2 if i == len(targets) - 1 else s2.fork()))
        return out

    def followed_decorators(self, fi=None) -> list:
        """
        Decorators of a function that are plain functions of the repository the client lets us execute: `@d` / `@d(args)` makes the
        name denote what d returns - usually a wrapper that runs a guard and calls the decorated body.
        """
        fi = self.top if fi is None else fi
        node = fi.node
        if isinstance(node, ast.Lambda):
            return []
        key = ("decorators", id(node))
        if key in self._globals:
            return self._globals[key]
        out = []
        for d in _wrapping_decorators(node):
            f = d.func if isinstance(d, ast.Call) else d
            target = self.repo.resolve_name(fi.module, f.id) if isinstance(f, ast.Name) else None
            plain = target is not None and hasattr(target, "node") and hasattr(target, "qualname") and not hasattr(target, "methods")
            if plain and self.follow_decorator(target):
                out.append(d)
            elif not plain:
                out = []                    # decorators that are not plain repository functions: as before (the body is analysed)
                break
        self._globals[key] = out
        return out

    def decorated_value(self, fi, decs, st):
        """[(value, state)]: what the name of the decorated function fi denotes - the decorators applied (innermost first) to its body"""
        lam = ast.Lambda(args=ast.arguments(posonlyargs=[], args=[], kwonlyargs=[], kw_defaults=[], defaults=[], vararg=None, kwarg=None),
                         body=ast.Constant(value=None))
        st.frames.append(_Frame(_LambdaInfo(lam, fi)))      # decorator expressions are evaluated at class / module level of fi's module
        self._bodies.add(id(fi.node))
        vals = [(("func", fi), st)]
        for d in reversed(decs):
            nxt = []
            for v, s in vals:
                n_ev = len(s.events)
                for dv, s2 in self.ev(d, s):
                    call = ast.copy_location(ast.Call(func=d, args=[], keywords=[]), d)
                    for w, s3 in self.call(call, dv, [v], {}, s2):
                        if len(s3.events) != n_ev:
                            raise _Und(f"a decorator of {fi.qualname} has effects of its own")
                        if w[0] not in ("closure", "func", "partial"):
                            raise _Und(f"what the decorators of {fi.qualname} return is not a function the analysis can enter")
                        nxt.append((w, s3))
            vals = nxt
        popped = set()
        for _, s in vals:
            if id(s) not in popped:
                popped.add(id(s))
                s.frames.pop()
        return vals

    def run_decorated(self, decs):
        """
        Analyse what the decorated name denotes: the decorators are executed on the undecorated function and the value they return is
        called with the parameters of the analysed function - wrapper and body are analysed as one function.
        """
        top = self.top
        a = top.node.args
        if a.vararg is not None or a.kwarg is not None or a.kwonlyargs:
            raise _Und("decorated function with * / ** / keyword-only parameters")
        lam = ast.Lambda(args=ast.arguments(posonlyargs=[], args=[], kwonlyargs=[], kw_defaults=[], defaults=[], vararg=None, kwarg=None),
                         body=ast.Constant(value=None))
        st = _St()
        st.frames = [_Frame(_LambdaInfo(lam, top))]
        args = [("param", x.arg) for x in a.posonlyargs + a.args]
        outs = []
        for w, s in self.decorated_value(top, decs, st):
            call = ast.copy_location(ast.Call(func=ast.Name(id=top.name, ctx=ast.Load()), args=[], keywords=[]), top.node)
            for _, s2 in self.call(call, w, list(args), {}, s):
                outs.append(("return", s2))
        outs.extend(("raise", s) for s in self._raised)
        if not self._body_ran:
            raise _Und(f"the decorators of {top.qualname} never run the decorated body")
        return outs

    def invoke_named(self, m, recv, args, kwargs, st, c):
        """call of the function / method the name of m denotes: its body, or - under followed decorators - the wrapper they return"""
        decs = self.followed_decorators(m)
        if not decs or id(m.node) in {id(f.fi.node) for f in st.frames if f.fi is not None}:
            return self.invoke(m.node, recv, args, kwargs, st, c)
        out = []
        for w, s in self.decorated_value(m, decs, st):
            out.extend(self.call(c, w, ([recv] if recv is not None else []) + list(args), kwargs, s))
        return out

    def start(self):
        """
        All paths of the analysed function. When the closed-world exception argument was used (cw_handler) and afterwards a call that
        may reach one of the `raise` sites it relies on turns out not to have been executed here, everything is redone without it.
        """
        snap = {k: (v.copy() if isinstance(v, (dict, list, set)) else v) for k, v in self.__dict__.items()}
        outs = self.start_once()
        if self._cw_used and self._cw_used & {n for n, seen, entered in self._calls_seen.values() if seen > entered}:
            self.__dict__.clear()
            self.__dict__.update(snap)
            self._cw_off = True
            outs = self.start_once()
        return outs

    def start_once(self):
        st = _St()
        fr = _Frame(self.top)
        for p in self.top.params():
            fr.env[p] = ("param", p)
        st.frames = [fr]
        saved, self._raised = self._raised, []
        try:
            decs = self.followed_decorators()
            outs = self.run(st) if not decs else self.run_decorated(decs)
        except _Und:
            raise
        except AnalysisError as e:
            raise _Und(str(e)) from None
        except Exception as e:  # noqa: BLE001
            if _os.environ.get("C07_DEBUG"):
                raise
            raise _Und(f"symbolic execution stopped ({type(e).__name__}: {e})") from None
        finally:
            self._raised = saved
        return outs


class _LambdaInfo:
    """stands in for FuncInfo for a lambda body"""

    def __init__(self, node, outer) -> None:
        self.node = node
        self.module = outer.module
        self.cls = outer.cls
        self.qualname = outer.qualname + ".<lambda>"
        self.name = "<lambda>"
        self.where = outer.where

    def params(self):
        a = self.node.args
        return [x.arg for x in a.posonlyargs + a.args]


def _call_arg(args, kwargs, index: int, name: str):
    """value bound to positional #index / keyword `name` of an evaluated call, None when it cannot be told"""
    if index < len(args) and _STAR not in args[: index + 1]:
        return args[index]
    if kwargs:
        return kwargs.get(name)
    return None


_T_SETTINGS = ("attr", _SELF, "settings")
_T_OVERLAY = ("attr", _SELF, "tunnel_community")
_T_SOCKET = ("attr", _SELF, "endpoint")
_LOG_ROOTS = ("self.logger", "self._logger", "logger", "logging")


class _SendPaths(_Interp):
    """TunnelEndpoint.send on symbolic paths: every send / queue / other effect is judged where it happens."""

    def __init__(self, ctx, fi, te) -> None:
        super().__init__(ctx, fi)
        self.te = te
        ps = fi.params()
        if len(ps) < 3:
            raise _Und("TunnelEndpoint.send does not take (self, address, packet)")
        self.addr, self.packet = ("param", ps[1]), ("param", ps[2])
        self._canon = {}
        try:
            self.ready_value = self.repo.resolve_const(self.repo.module(TUNNEL), ast.Name(id="CIRCUIT_STATE_READY", ctx=ast.Load()))
        except Exception:  # noqa: BLE001
            self.ready_value = NOCONST
        try:
            self.exit_value = self.repo.resolve_const(self.repo.module(TUNNEL), ast.Name(id="PEER_FLAG_EXIT_IPV8", ctx=ast.Load()))
        except Exception:  # noqa: BLE001
            self.exit_value = NOCONST

    # ---- what the interpreter may enter
    def follow(self, fi) -> bool:
        if fi.cls is None and enclosing_function(fi.node) is None:
            return True         # a plain function of the repository (of this module, or one that moved to another module)
        if fi.node is self.top.node or fi.cls is None:
            return False
        if fi.cls is self.te:
            return fi.name in self.te.methods and self.te.methods[fi.name] is fi
        # a method TunnelEndpoint inherits from a (mixin) base class: the one attribute lookup on self finds
        return any(c is fi.cls for c in self.te.mro()) and self.te.lookup(fi.name) is fi

    def follow_object(self, ci, m) -> bool:
        return True             # methods / properties of a state-holder object kept in a field of the endpoint (its class is certain)

    def canon(self, name: str):
        """
        The value `self.<name>` denotes: the attribute itself, or - when TunnelEndpoint defines it as a read-only property over a
        state holder - the value its getter returns (one value, no effects, no tests).
        """
        got = self._canon.get(name)
        if got is None:
            got = ("attr", _SELF, name)
            m = self.te.lookup(name)
            if m is not None and {"property", "cached_property", "functools.cached_property"} & set(m.decorator_names()):
                st = _St()
                st.frames = [_Frame(self.top, {p: ("param", p) for p in self.top.params()})]
                saved, self._raised = self._raised, []
                n_ev = len(self.all_events)
                try:
                    outs = self.invoke(m.node, _SELF, [], {}, st, m.node) if self.follow(m) else []
                    raised = list(self._raised)
                finally:
                    self._raised = saved
                if len(outs) != 1 or raised or outs[0][1].events or outs[0][1].facts or len(self.all_events) != n_ev:
                    raise _Und(f"TunnelEndpoint.{name} is a property whose value depends on tests / has effects")
                got = _strip(outs[0][0])
            self._canon[name] = got
        return got

    def read_field(self, base, name, st):
        if _strip(base) == _SELF:
            if name == "send_queue":
                return ("queue", st.qver)
            if name == "settings":
                return ("attr", _SELF, "settings", 0)       # the table is not written while send runs (every write is an event)
        return None

    # ---- the anonymity switch of this packet
    def named_const(self, v):
        """a module constant used by name stands for its value"""
        cv = self.fold_value(v)
        return ("const", cv) if cv is not NOCONST and type(cv) is int else v

    def fold_value(self, v, depth: int = 6):
        """the constant a symbolic value built from literals, named constants, arithmetic, len() and derived sizes evaluates to"""
        if type(v) is not tuple or not v or depth <= 0:
            return NOCONST
        v = _strip(v)
        if v[0] == "const":
            return v[1]
        mod = self.top.module
        ch = _vchain(v)
        if ch is not None and v[0] in ("global", "attr") and all(p.isidentifier() for p in ch.split(".")):
            try:
                return _fold(self.repo, mod, ast.parse(ch, mode="eval").body)
            except Exception:  # noqa: BLE001
                return NOCONST
        if v[0] == "binop" and len(v) == 4:
            l, r = self.fold_value(v[2], depth - 1), self.fold_value(v[3], depth - 1)
            if l is NOCONST or r is NOCONST:
                return NOCONST
            ops = {"Add": ast.Add, "Sub": ast.Sub, "Mult": ast.Mult, "FloorDiv": ast.FloorDiv, "LShift": ast.LShift, "BitOr": ast.BitOr}
            if v[1] not in ops:
                return NOCONST
            try:
                return _fold(self.repo, mod, ast.BinOp(left=ast.Constant(value=l), op=ops[v[1]](), right=ast.Constant(value=r)))
            except Exception:  # noqa: BLE001
                return NOCONST
        if v[0] == "pcall" and v[1] in (("global", "len"), ("global", "calcsize"), ("attr", ("global", "struct"), "calcsize")) and len(v[2]) == 1:
            x = self.fold_value(v[2][0], depth - 1)
            if x is NOCONST:
                return NOCONST
            name = "len" if v[1] == ("global", "len") else "calcsize"
            return _fold(self.repo, mod, ast.Call(func=ast.Name(id=name, ctx=ast.Load()), args=[ast.Constant(value=x)], keywords=[]))
        return NOCONST

    def is_key(self, v) -> bool:
        if v[0] != "slice":
            return False
        lo, hi, step = self.named_const(v[2]), self.named_const(v[3]), self.named_const(v[4])
        return v[1] == self.packet and lo in (_NONE, ("const", 0)) and hi == ("const", 22) and not isinstance(hi[1], bool) \
            and step in (_NONE, ("const", 1))

    def is_read(self, v) -> bool:
        if v[0] == "truth":
            return self.is_read(v[1])
        if v[0] == "pcall" and v[1] == ("attr", _T_SETTINGS, "get"):
            a = v[2]
            return 1 <= len(a) <= 2 and self.is_key(a[0]) and (len(a) == 1 or (a[1][0] == "const" and (a[1][1] is None or a[1][1] is False or (type(a[1][1]) is int and a[1][1] == 0))))
        return v[0] == "sub" and v[1] == _T_SETTINGS and self.is_key(v[2])

    def read_with_default(self, v):
        """the default D when v is self.settings.get(<key of this packet>, D) with a default that is not a falsy constant, else None"""
        while v[0] == "truth":
            v = v[1]
        if v[0] == "pcall" and v[1] == ("attr", _T_SETTINGS, "get") and len(v[2]) == 2 and self.is_key(v[2][0]) and not self.is_read(v):
            return v[2][1]
        return None

    def is_sentinel(self, d) -> bool:
        """a module-level NAME = object(): a value no table entry can be"""
        if d[0] != "global":
            return False
        expr = getattr(self.top.module, "constants", {}).get(d[1])
        return isinstance(expr, ast.Call) and chain(expr.func) == "object" and not expr.args and not expr.keywords

    def switch(self, facts) -> set:
        out = set()
        facts = [(_strip(k), pol) for k, pol in facts]
        # table.get(key, D) with some other default D: a falsy result is "off" whatever D is (a falsy entry, or no entry and a falsy D
        # - both falsy for get(key, False) too); a truthy result that is not D is the entry itself; D itself, for a private sentinel, is "no entry"
        not_default = set()
        for k, pol in facts:
            if k[0] == "cmp" and k[1] in ("is", "eq"):
                for a, b in ((k[2], k[3]), (k[3], k[2])):
                    d = self.read_with_default(a)
                    if d is not None and d == b:
                        if not pol:
                            not_default.add(a)
                        elif k[1] == "is" and self.is_sentinel(d):
                            out.add(OFF)
        for k, pol in facts:
            if self.read_with_default(k) is not None:
                inner = k
                while inner[0] == "truth":
                    inner = inner[1]
                if not pol:
                    out.add(OFF)
                elif inner in not_default:
                    out.add(ON)
        for k, pol in facts:
            if self.is_read(k):
                out.add(ON if pol else OFF)
            elif k[0] == "cmp" and k[1] == "in" and self.is_key(k[2]) \
                    and (k[3] == _T_SETTINGS or (k[3][0] == "pcall" and k[3][1] == ("attr", _T_SETTINGS, "keys") and not k[3][2])):
                if not pol:
                    out.add(OFF)        # no entry: get(..., falsy) is falsy
            elif k[0] == "cmp" and k[1] in ("eq", "is") and pol:
                for a, b in ((k[2], k[3]), (k[3], k[2])):
                    if b[0] == "const" and isinstance(b[1], bool) and self.is_read(a):
                        out.add(ON if b[1] else OFF)
        return out

    # ---- the circuit
    def find_ok(self, L) -> bool:
        fv, args, kwargs = L[2], L[3], dict(L[4]) if L[4] is not None else None
        if kwargs is None or _STAR in args or fv != ("attr", self.canon("tunnel_community"), "find_circuits"):
            return False
        sig = _Source.SIG
        ef, hp, ct = (_call_arg(args, kwargs, sig.index(n), n) for n in ("exit_flags", "hops", "ctype"))
        ef, hp, ct = _strip(ef) if ef else None, _strip(hp) if hp else None, _strip(ct) if ct else None
        ef_ok = ef is not None and ef[0] in ("list", "tuple", "set") and any(self.is_exit_ipv8(x) for x in ef[1])
        return bool(ef_ok and hp == self.canon("hops") and (ct is None or _vchain(ct) in ("CIRCUIT_TYPE_DATA", "tunnel.CIRCUIT_TYPE_DATA")))

    def is_exit_ipv8(self, x) -> bool:
        """the flag PEER_FLAG_EXIT_IPV8 by name, or a constant (IntFlag / IntEnum member, settings field, literal) that evaluates to its value"""
        if _vchain(x) in ("PEER_FLAG_EXIT_IPV8", "tunnel.PEER_FLAG_EXIT_IPV8"):
            return True
        if self.exit_value is NOCONST or type(self.exit_value) is not int:
            return False
        got = self.fold_value(x)
        return got is not NOCONST and type(got) is int and got == self.exit_value

    def lst_ok(self, L, depth: int = 6) -> bool:
        if depth <= 0:
            return False
        tag = L[0]
        if tag == "call":
            return self.find_ok(L)
        if tag in ("slice", "iter", "reversed"):
            return self.lst_ok(L[1], depth - 1)
        if tag == "comp":
            return L[4] is not None and self.lst_ok(L[2], depth - 1)
        if tag == "loopvar":
            src = _Source(L[2])
            return not isinstance(L[2], _LambdaInfo) and src.lst(ast.Name(id=L[1], ctx=ast.Load()), 6) and src.finds > 0
        return False

    def pick_ok(self, c) -> bool:
        tag = c[0]
        if tag == "sub":
            return c[2][0] == "const" and isinstance(c[2][1], int) and self.lst_ok(c[1])
        if tag == "elem":
            return self.lst_ok(c[1])
        if tag == "loopvar":
            src = _Source(c[2])
            return not isinstance(c[2], _LambdaInfo) and src.name_pick(c[1], 6) and src.finds > 0
        return False

    def is_ready_const(self, v) -> bool:
        ch = _vchain(v)
        if ch is not None and ch.split(".")[-1] == "CIRCUIT_STATE_READY":
            return True
        return v[0] == "const" and self.ready_value is not NOCONST and isinstance(v[1], type(self.ready_value)) and v[1] == self.ready_value

    def only_ready(self, v, depth: int = 3) -> bool:
        """a non-empty literal tuple / list / set / frozenset (possibly a module constant) whose every element is CIRCUIT_STATE_READY"""
        if depth <= 0 or type(v) is not tuple or not v:
            return False
        if v[0] in ("tuple", "list", "set"):
            return bool(v[1]) and all(self.is_ready_const(x) for x in v[1])
        if v[0] == "pcall" and v[1] in (("global", "frozenset"), ("global", "set"), ("global", "tuple"), ("global", "list")) and len(v[2]) == 1:
            return self.only_ready(v[2][0], depth - 1)
        if v[0] == "global" and len(v) == 2:
            r = self.repo.resolve_name(self.top.module, v[1])
            expr = r[2] if isinstance(r, tuple) and len(r) == 3 and r[0] == "const" else None
            for _ in range(2):
                if isinstance(expr, ast.Call) and chain(expr.func) in ("frozenset", "set", "tuple", "list") and len(expr.args) == 1 and not expr.keywords:
                    expr = expr.args[0]
            if isinstance(expr, (ast.Tuple, ast.List, ast.Set)) and expr.elts:
                mod = r[1]
                vals = [_fold(self.repo, mod, x) for x in expr.elts]
                return self.ready_value is not NOCONST and all(x is not NOCONST and type(x) is type(self.ready_value) and x == self.ready_value for x in vals)
        return False

    def ready(self, c, facts) -> bool:
        want = ("attr", c, "state")

        def says(k, pol, who) -> bool:
            if pol and k[0] == "cmp" and k[1] == "in" and k[2] == who and self.only_ready(k[3]):
                return True         # membership in a collection that holds nothing but READY
            return pol and k[0] == "cmp" and k[1] == "eq" and ((k[2] == who and self.is_ready_const(k[3])) or (k[3] == who and self.is_ready_const(k[2])))
        if any(says(_strip(k), pol, want) for k, pol in facts):
            return True
        # an element of `[x for x in <circuits> if x.state == READY]`
        src = c[1] if c[0] in ("sub", "elem") else None
        while src is not None and src[0] in ("slice", "iter", "reversed"):
            src = src[1]
        if src is not None and src[0] == "comp" and src[4] is not None:
            return any(says(k, pol, ("attr", src[3], "state")) for k, pol in src[4])
        return False

    def queue_nonempty(self, q, facts) -> bool:
        ln = ("pcall", ("global", "len"), (q,))
        for k, pol in facts:
            k = _strip(k)
            if k in (q, ln):
                if pol:
                    return True
            elif k[0] == "cmp" and k[1] == "lt":
                if (pol and k[2] == ("const", 0) and k[3] == ln) or (not pol and k[2] == ln and k[3] == ("const", 1)):
                    return True
            elif k[0] == "cmp" and k[1] == "eq" and not pol and {k[2], k[3]} == {ln, ("const", 0)}:
                return True
        return False

    # ---- effects
    def other(self, st, c, text: str) -> None:
        self.event(st, "OTHER", c, False, text)

    def on_store(self, t, base, name, v, st) -> None:
        b = _strip(base)
        if b[0] == "obj":
            return              # a field of an object made right here: the object is a tracked value, judged where it is used / handed on
        if v is not None and self.leaks(v):
            self.other(st, enclosing_stmt(t), "the raw endpoint / its send method is stored in an object")
        elif isinstance(t, ast.Attribute) and b == _SELF and name in ("settings", "send_queue", "endpoint"):
            self.other(st, enclosing_stmt(t), f"store to self.{name}")
        elif isinstance(t, ast.Subscript) and (b == _T_SETTINGS or b[0] == "queue"):
            self.other(st, enclosing_stmt(t), "store into " + ("self.settings" if b == _T_SETTINGS else "self.send_queue"))

    def on_opaque_call(self, c, st) -> None:
        ch = chain(c.func) or ""
        if ch in _PURE or ch in _PURE_BUILTINS or ch.startswith(_LOG_PREFIX):
            return
        self.other(st, c, ch)

    def on_unknown_call(self, c, fv, args, kwargs, st):
        self.other(st, c, _vchain(_strip(fv)) or chain(c.func) or "?")
        return super().on_unknown_call(c, fv, args, kwargs, st)

    def impure(self, st):
        st.epoch += 1
        st.qver += 1
        st.heap.clear()

    def leaks(self, v) -> bool:
        """the value is / contains the raw endpoint or its bound send method"""
        v = _strip(v) if type(v) is tuple else v
        if v == _T_SOCKET or v == ("attr", _T_SOCKET, "send"):
            return True
        return type(v) is tuple and v[:1] != ("const",) and any(self.leaks(x) for x in v if type(x) is tuple)

    def on_call(self, c, fv, args, kwargs, st):  # noqa: C901, PLR0911, PLR0912
        if any(self.leaks(a) for a in list(args) + list((kwargs or {}).values())) and not (fv[0] == "closure" or (fv[0] == "attr" and _strip(fv[1]) == _SELF)) \
                and not self.makes_object(fv, kwargs, st):
            self.other(st, c, "the raw endpoint / its send method is handed to " + (_vchain(_strip(fv)) or chain(c.func) or "a call"))
        if fv[0] != "attr":
            return None
        recv, name = _strip(fv[1]), fv[2]
        ch = _vchain(recv)
        if ch is not None and (ch in _LOG_ROOTS or ch.startswith(tuple(r + "." for r in _LOG_ROOTS))):
            return [(_NONE, st)]
        facts = tuple(st.facts.items())
        if recv == _T_SOCKET and name == "send":
            a, p = _call_arg(args, kwargs, 0, "socket_address"), _call_arg(args, kwargs, 1, "packet")
            why = []
            if a is None or _strip(a) != self.addr or p is None or _strip(p) != self.packet:
                why.append("not the packet / address send() was given")
            if self.switch(facts) != {OFF}:
                why.append("the anonymity switch of the packet is not known to be off")
            self.event(st, "RAW", c, not why, "; ".join(why))
            self.impure(st)
            return [(self.unknown(), st)]
        if name == "send_data":
            vals = [_call_arg(args, kwargs, i, n) for i, n in enumerate(("target", "circuit_id", "dest_address", "source_address", "data"))]
            target, cid, dest, origin, _ = [_strip(v) if v is not None else None for v in vals]
            why = []
            if recv != self.canon("tunnel_community"):
                why.append("receiver")
            circ = None
            if target is not None and target[0] == "attr" and target[2] == "address" and target[1][0] == "attr" and target[1][2] == "hop":
                circ = target[1][1]
            if circ is None:
                why.append("first_hop")
            else:
                if cid != ("attr", circ, "circuit_id"):
                    why.append("circuit_id")
                if not self.pick_ok(circ):
                    why.append("source")
                if not self.ready(circ, facts):
                    why.append("ready")
                if why and circ[0] in ("loopvar", "unknown", "local"):
                    why.append("(the circuit value is not tracked through this loop / container)")
            if origin not in (("tuple", (("const", "0.0.0.0"), ("const", 0))), ("const", ("0.0.0.0", 0))) or dest is None or dest[0] == "const":
                why.append("args")
            if self.switch(facts) != {ON}:
                why.append("switch")
            self.event(st, "TUNNEL", c, not why, "not established: " + ", ".join(why) if why else "")
            self.impure(st)
            return [(self.unknown(), st)]
        if name in ("find_circuits", "create_circuit"):
            st.effects.append("CIRCUIT")
            self.impure(st)
            kw = tuple(sorted(kwargs.items(), key=lambda kv: kv[0])) if kwargs is not None else None
            return [(("call", self.uid(), _strip(fv), tuple(args), kw), st)]
        if recv[0] == "queue":
            if name == "append":
                self.event(st, "QUEUE", c, self.switch(facts) == {ON}, "a packet is queued although its anonymity switch is not known to be on")
                self.impure(st)
                return [(_NONE, st)]
            if name in ("popleft", "pop"):
                self.event(st, "DRAIN", c, self.queue_nonempty(recv, facts) or _index_error_caught(c) or _count_bounded_drain(st.frames[-1].fi, c),
                           "the queue is not known to be non-empty")
                self.impure(st)
                return [(("qitem", self.uid()), st)]
            if name in ("copy", "count", "index", "__len__"):
                return None
            self.other(st, c, f"self.send_queue.{name}")
            self.impure(st)
            return [(self.unknown(), st)]
        if recv == _T_SETTINGS:
            if name == "get":
                return [(("pcall", ("attr", _T_SETTINGS, "get"), tuple(args), 0), st)]
            if name in ("keys", "values", "items", "copy", "__contains__", "__getitem__"):
                return None
            self.other(st, c, f"self.settings.{name}")
            return [(self.unknown(), st)]
        return None


def _endpoint_follow(te, top, fi) -> bool:
    """
    What the path analyses of a TunnelEndpoint method may enter: the other methods of the endpoint (its own or inherited from a mixin
    base - the one attribute lookup on self finds) and plain functions of the repository (a block that moved out of the class and
    takes the object); never send itself (judged by its own rule).
    """
    if fi.node is top.node or fi.name == "send":
        return False
    if fi.cls is None:
        return enclosing_function(fi.node) is None
    return any(c is fi.cls for c in te.mro()) and te.lookup(fi.name) is fi


class _TablePaths(_Interp):
    """TunnelEndpoint.set_anonymity on symbolic paths: what is written into the anonymity table, on which paths."""

    def __init__(self, ctx, fi, te) -> None:
        super().__init__(ctx, fi)
        self.te = te

    def follow(self, fi) -> bool:
        return _endpoint_follow(self.te, self.top, fi)

    def read_field(self, base, name, st):
        if _strip(base) == _SELF and name == "settings":
            return ("attr", _SELF, "settings", 0)
        return None

    def put(self, st, node, key, value) -> None:
        ps = self.top.params()
        ok = key is not None and value is not None and _strip(key) == ("param", ps[1]) and _strip(value) == ("param", ps[2])
        self.event(st, "PUT" if ok else "OTHERPUT", node, ok, "the table is changed, but not by table[prefix] = enable")

    def on_store(self, t, base, name, v, st) -> None:
        b = _strip(base)
        if isinstance(t, ast.Subscript) and b == _T_SETTINGS:
            self.put(st, enclosing_stmt(t), name, v)
        elif isinstance(t, ast.Attribute) and b == _SELF and name == "settings":
            self.put(st, enclosing_stmt(t), None, None)

    def on_call(self, c, fv, args, kwargs, st):
        if fv[0] != "attr" or _strip(fv[1]) != _T_SETTINGS:
            return None
        name = fv[2]
        if name == "__setitem__" and len(args) == 2 and _STAR not in args:
            self.put(st, c, args[0], args[1])
        elif name == "update" and len(args) == 1 and not kwargs and args[0][0] == "dict" and len(args[0][1]) == 1:
            self.put(st, c, args[0][1][0][0], args[0][1][0][1])
        elif name == "update" and len(args) == 1 and not kwargs and args[0][0] in ("list", "tuple") and len(args[0][1]) == 1 \
                and args[0][1][0][0] in ("list", "tuple") and len(args[0][1][0][1]) == 2:
            self.put(st, c, args[0][1][0][1][0], args[0][1][0][1][1])
        elif name in ("get", "keys", "values", "items", "copy", "__contains__", "__getitem__"):
            return None
        else:
            self.put(st, c, None, None)
        return [(_NONE, st)]


def _set_anonymity_paths(ctx, te, sa):
    """(ok, interpreter): on every path that returns, set_anonymity stored `enable` under `prefix` and changed nothing else in the table"""
    it = _TablePaths(ctx, sa, te)
    outs = it.start()
    ok = bool(outs) and not any(e.kind == "OTHERPUT" for e in it.all_events)
    for kind, st in outs:
        if kind == "return" and "PUT" not in st.effects:
            ok = False
    return ok and any(kind == "return" for kind, _ in outs), it


class _DeliverPaths(_Interp):
    """TunnelEndpoint.notify_listeners on symbolic paths: which listeners are handed the packet."""

    def __init__(self, ctx, fi, te) -> None:
        super().__init__(ctx, fi)
        self.te = te
        self.from_tunnel = ("param", fi.params()[2])
        self.hits = []

    def follow(self, fi) -> bool:
        return _endpoint_follow(self.te, self.top, fi)

    def is_anon(self, v, listener) -> bool:
        while v[0] == "truth":
            v = v[1]
        if v[0] == "pcall" and v[1] == ("global", "getattr") and len(v[2]) == 3:
            a = v[2]
            return a[0] == listener and a[1] == ("const", "anonymize") and a[2][0] == "const" and not a[2][1]
        return False

    def is_ft(self, v) -> bool:
        while v[0] == "truth":
            v = v[1]
        return v == self.from_tunnel

    def decided(self, facts, listener) -> bool:
        """the tests say: getattr(listener, "anonymize", False) has the truth value of from_tunnel"""
        eqs, avs, tvs = set(), set(), set()
        for k, pol in facts:
            if k[0] == "cmp" and k[1] in ("eq", "is") and ((self.is_anon(k[2], listener) and self.is_ft(k[3])) or (self.is_anon(k[3], listener) and self.is_ft(k[2]))):
                eqs.add(pol)
            elif self.is_anon(k, listener):
                avs.add(pol)
            elif self.is_ft(k):
                tvs.add(pol)
            elif k[0] == "cmp" and k[1] in ("eq", "is") and pol:
                for x, y in ((k[2], k[3]), (k[3], k[2])):
                    if y[0] == "const" and isinstance(y[1], bool):
                        if self.is_anon(x, listener):
                            avs.add(y[1])
                        elif self.is_ft(x):
                            tvs.add(y[1])
        if len(eqs) > 1 or len(avs) > 1 or len(tvs) > 1:
            return False
        eq, a, t = next(iter(eqs), None), next(iter(avs), None), next(iter(tvs), None)
        if eq is False or (a is not None and t is not None and a != t):
            return False
        return eq is True or (a is not None and a == t)

    def on_call(self, c, fv, args, kwargs, st):
        if fv[0] == "attr" and fv[2] == "_deliver_later":
            listener = _call_arg(args, kwargs, 0, "listener")
            listener = _strip(listener) if listener is not None else None
            facts = [(_strip(k), p) for k, p in st.facts.items()]
            ok = listener is not None and self.decided(facts, listener)
            if not ok and listener is not None and listener[0] in ("elem", "sub"):
                src = listener[1]
                while src[0] in ("slice", "iter", "reversed"):
                    src = src[1]
                if src[0] == "comp" and src[4] is not None:     # [l for l in ... if getattr(l, "anonymize", False) == from_tunnel]
                    ok = self.decided(facts + list(src[4]), src[3])
            self.hits.append((st.frames[-1].fi, c, ok))
            st.epoch += 1
            return [(_NONE, st)]
        return None


def _deliver_paths(ctx, te, nl) -> dict:
    it = _DeliverPaths(ctx, nl, te)
    it.start()
    out = {}
    for hf, c, ok in it.hits:
        prev = out.get(id(c))
        out[id(c)] = (hf if not isinstance(hf, _LambdaInfo) else nl, c, ok and (prev is None or prev[2]))
    return out


class _ExitFlagsPaths(_Interp):
    def follow(self, fi) -> bool:
        return fi.cls is self.cls and fi.node is not self.top.node and _is_getter(fi)


def _exit_flags_paths(ctx, fi):
    """
    Circuit.exit_flags on symbolic paths -> (verdict, detail): True = every flags value it returns is read from the last hop and some
    path returns one; False = a returned flags value belongs to a recognisably different hop; None = undecided.
    """
    it = _ExitFlagsPaths(ctx, fi)
    outs = it.start()
    lists = (("attr", _SELF, "hops"), ("attr", _SELF, "_hops"))

    def is_len(v) -> bool:
        return v[0] == "pcall" and v[1] == ("global", "len") and len(v[2]) == 1 and v[2][0] in lists

    def last(h):
        if h[0] == "sub":
            base, i = h[1], h[2]
            rev = False
            while base[0] in ("iter", "reversed") or (base[0] == "pcall" and base[1] in (("global", "list"), ("global", "tuple")) and len(base[2]) == 1):
                rev = rev != (base[0] == "reversed")
                base = base[1] if base[0] != "pcall" else base[2][0]
            if base[0] == "slice" and base[1] in lists and base[2] == ("const", -1) and base[3] == _NONE and base[4] in (_NONE, ("const", 1)) and not rev:
                return True if i in (("const", 0), ("const", -1)) else None
            if base[0] == "slice" and base[1] in lists and base[2] in (_NONE, ("const", 0)) and base[4] in (_NONE, ("const", 1)) and not rev \
                    and i == ("const", 0):
                return False
            if base not in lists:
                return None
            if i[0] == "const" and isinstance(i[1], int):
                return i[1] == (0 if rev else -1)
            if not rev and i[0] == "binop" and i[1] == "Sub" and is_len(i[2]) and i[3] == ("const", 1):
                return True
            return None
        if h in (("attr", _SELF, "hop"), ("attr", _SELF, "unverified_hop")):
            return False
        return None
    seen_flags = False
    for kind, st in outs:
        if kind != "return":
            continue
        v = _strip(st.ret)
        while v[0] == "pcall" and v[1] in (("global", "list"), ("global", "tuple")) and len(v[2]) == 1:
            v = v[2][0]
        if v[0] == "attr" and v[2] == "flags":
            r = last(v[1])
            if r is None:
                return None, f"which hop `{_show(v)}` is read from"
            if r is False:
                return False, _show(v)
            seen_flags = True
        elif v[0] == "const" or (v[0] in ("list", "tuple") and not v[1]):
            continue
        else:
            return None, f"what `{_show(v)}` is"
    return (True, "") if seen_flags else (None, "no path returns the flags of a hop")


class _FindPaths(_Interp):
    """TunnelCommunity.find_circuits on symbolic paths: which circuits are put into the result, under which tests."""

    def __init__(self, ctx, fi) -> None:
        super().__init__(ctx, fi)
        self.includes = []      # (node, function, element value, facts)

    def follow(self, fi) -> bool:
        if fi.node is self.top.node or (fi.cls is None and enclosing_function(fi.node) is not None):
            return False
        # getters, and helpers / generators (methods, or plain functions taking the object) that only read, test and yield
        return _is_getter(fi) or _is_reader(fi)

    def include(self, node, value, st) -> None:
        if value[0] not in ("elem", "sub", "loopvar"):
            return              # not an element of a collection (a truth value computed by an inner comprehension, ...)
        self.includes.append((node, st.frames[-1].fi, _strip(value), tuple((_strip(k), p) for k, p in st.facts.items()), self._comp_uid))

    def on_include(self, comp, value, st) -> None:
        self.include(comp, value, st)

    def on_call(self, c, fv, args, kwargs, st):
        if fv[0] == "attr" and fv[2] in ("append", "add", "appendleft") and _local_container(fv[1]) and len(args) == 1 and args[0] is not _STAR:
            self.include(c, args[0], st)
        return None


def _circuit_filter(ctx, fi):  # noqa: C901, PLR0912
    """
    [(node, function, ok_flags, ok_hops)] for every circuit find_circuits puts into its result; ok_*: True = the tests on the path
    establish the requested constraint, False = all tests on the path about that parameter are understood and none establishes it,
    None = undecided.
    """
    it = _FindPaths(ctx, fi)
    outs = it.start()
    for kind, st in outs:                        # a lazily filtered result is produced when the caller iterates it
        if kind == "return" and st.ret[0] in ("filtered", "gen"):
            for x, s2 in it.elements(st.ret, st.fork()):
                it.include(fi.node, x, s2)
    ps = fi.params()
    if "exit_flags" not in ps or "hops" not in ps:
        raise _Und("find_circuits has no exit_flags / hops parameter")
    flags, hops = ("param", "exit_flags"), ("param", "hops")

    def mentions(v, what) -> bool:
        return v == what or (type(v) is tuple and any(mentions(x, what) for x in v))

    def as_set(v, inner) -> bool:
        return v == inner or (v[0] == "pcall" and v[1] in (("global", "set"), ("global", "frozenset")) and v[2] == (inner,))

    # a result that is filtered in stages (a comprehension / generator expression over the result of the previous one): what matters
    # is what gets through all stages, so the stages are judged together at the return and not one by one
    def unwrap(v):
        while v[0] in ("slice", "iter", "reversed", "islice") or (v[0] == "pcall" and v[1] in (("global", "list"), ("global", "tuple"), ("global", "sorted"))
                                                                  and len(v[2]) >= 1):
            v = v[1] if v[0] != "pcall" else v[2][0]
        return v

    def subst(v, old, new):
        if v == old:
            return new
        return tuple(subst(x, old, new) for x in v) if type(v) is tuple else v
    staged, together = set(), []
    for kind, st in outs:
        if kind != "return":
            continue
        stages = []
        v = unwrap(_strip(st.ret))
        while v[0] == "comp" and len(v) > 6 and v[6] is not None:
            stages.append(v)
            v = unwrap(v[2])
        if len(stages) < 2 or v[0] == "comp":
            continue
        elem = stages[0][3]
        combos = [tuple((_strip(k), p) for k, p in st.facts.items())]
        for stage in stages:
            combos = [c + tuple((subst(k, stage[3], elem), p) for k, p in case) for c in combos for case in stage[6]]
            if len(combos) > 4096:
                raise _Und("too many cases in the staged filter of find_circuits")
        staged.update(stage[1] for stage in stages)
        together.extend((fi.node, fi, elem, c, None) for c in combos)
    out = []
    for node, hf, elem, facts, cuid in [x for x in it.includes if x[4] not in staged or x[4] is None] + together:
        cflags, chops = ("attr", elem, "exit_flags"), ("attr", elem, "goal_hops")
        f_ok, f_known, h_ok, h_known = False, True, False, True
        for k, pol in facts:
            if mentions(k, flags):
                if k[0] == "cmp" and k[1] == "is" and {k[2], k[3]} == {flags, _NONE}:
                    f_ok = f_ok or pol
                elif k == flags:
                    f_ok = f_ok or not pol          # nothing requested
                elif k[0] == "cmp" and k[1] == "lt" and as_set(k[2], cflags) and as_set(k[3], flags) and k[2] != cflags:
                    f_ok = f_ok or not pol          # not (set(c.exit_flags) < set(wanted))  <=>  set(wanted) <= set(c.exit_flags)
                elif k[0] == "cmp" and k[1] == "lt" and as_set(k[2], flags) and as_set(k[3], cflags) and k[2] != flags:
                    f_ok = f_ok or pol              # proper subset
                elif k[0] == "cmp" and k[1] == "eq" and ((as_set(k[2], flags) and as_set(k[3], cflags)) or (as_set(k[3], flags) and as_set(k[2], cflags))) \
                        and flags not in (k[2], k[3]):
                    f_ok = f_ok or pol              # the same set
                elif k[0] == "binop" and k[1] == "Sub" and as_set(k[2], flags) and as_set(k[3], cflags) and k[2] != flags:
                    f_ok = f_ok or not pol          # nothing wanted is missing
                elif k[0] == "cmp" and k[1] == "eq" and {k[2], k[3]} == {flags, _NONE}:
                    f_ok = f_ok or pol
                elif k[0] == "pcall" and k[1] in (("global", "all"), ("global", "any")) and len(k[2]) == 1 and k[2][0][0] == "comp" \
                        and len(k[2][0]) > 5 and k[2][0][5] is not None and _strip(k[2][0][2]) == flags:
                    comp = k[2][0]          # all(f in c.exit_flags for f in exit_flags) / not any(f not in c.exit_flags for f in exit_flags)
                    elt, inside = it.norm(comp[5], True)
                    if elt[0] == "cmp" and elt[1] == "in" and elt[2] == comp[3] and as_set(elt[3], cflags):
                        if k[1][1] == "all" and inside:
                            f_ok = f_ok or pol
                        elif k[1][1] == "any" and not inside:
                            f_ok = f_ok or not pol
                    else:
                        f_known = False
                elif k[0] in ("binop", "cmp") and {True} == {as_set(x, flags) or as_set(x, cflags) for x in k[2:4]}:
                    pass                            # another relation between the two sets (overlap, superset ...): understood, establishes nothing
                elif k[0] == "pcall" and k[1][0] == "attr" and k[1][2] == "issubset" and as_set(k[1][1], flags) and k[1][1] != flags \
                        and len(k[2]) == 1 and as_set(k[2][0], cflags):
                    f_ok = f_ok or pol
                elif k[0] == "pcall" and k[1][0] == "attr" and k[1][2] == "issuperset" and as_set(k[1][1], cflags) and k[1][1] != cflags \
                        and len(k[2]) == 1 and as_set(k[2][0], flags):
                    f_ok = f_ok or pol
                else:
                    f_known = False
            if mentions(k, hops):
                if k[0] == "cmp" and k[1] == "is" and {k[2], k[3]} == {hops, _NONE}:
                    h_ok = h_ok or pol
                elif k[0] == "cmp" and k[1] == "eq" and {k[2], k[3]} == {hops, chops}:
                    h_ok = h_ok or pol
                elif k[0] == "cmp" and k[1] == "eq" and {k[2], k[3]} == {hops, _NONE}:
                    h_ok = h_ok or pol
                elif k[0] == "cmp" and k[1] == "in" and k[2] == hops and k[3][0] in ("tuple", "list", "set") and set(k[3][1]) <= {_NONE, chops}:
                    h_ok = h_ok or pol              # hops in (None, c.goal_hops)
                elif k[0] == "cmp" and {k[2], k[3]} == {hops, chops}:
                    pass                            # an ordering test between the two lengths: understood, establishes nothing
                else:
                    h_known = False
        out.append((node, hf, True if f_ok else (False if f_known else None), True if h_ok else (False if h_known else None)))

    def worst(vals):
        return False if False in vals else None if None in vals else True
    sites = {}
    for node, hf, f, h in out:
        sites.setdefault(id(node), (node, hf, [], []))
        sites[id(node)][2].append(f)
        sites[id(node)][3].append(h)
    return [(node, hf, worst(fs), worst(hs)) for node, hf, fs, hs in sites.values()]


def _count_bounded_drain(fi, c) -> bool:
    """
    The pop sits directly in the body of `for ... in range(len(self.send_queue))` (the count is taken once, when the loop starts), is
    executed at most once per iteration (no inner loop around it) and is the only statement of the loop that removes items from the
    queue or rebinds it: at most as many items are taken as the queue held when the loop began.
    """
    if isinstance(fi, _LambdaInfo) or not hasattr(fi, "node"):
        return False
    loop = None
    for a in ancestors(c):
        if isinstance(a, (ast.FunctionDef, ast.AsyncFunctionDef, ast.Lambda, ast.ListComp, ast.SetComp, ast.DictComp, ast.GeneratorExp)):
            return False
        if isinstance(a, (ast.For, ast.AsyncFor, ast.While)):
            loop = a
            break
    if not isinstance(loop, ast.For) or not any(_inside(c, st) for st in loop.body):
        return False
    it = strip_cast(loop.iter)
    if not (isinstance(it, ast.Call) and chain(it.func) == "range" and len(it.args) == 1 and not it.keywords):
        return False
    ln = strip_cast(it.args[0])
    if not (isinstance(ln, ast.Call) and chain(ln.func) == "len" and len(ln.args) == 1 and not ln.keywords
            and _achain(fi, ln.args[0]) == "self.send_queue"):
        return False
    for st in loop.body:
        for n in ast.walk(st):
            if isinstance(n, ast.Call) and n is not c and isinstance(n.func, ast.Attribute) and _achain(fi, n.func.value) == "self.send_queue" \
                    and n.func.attr in _MUTATORS | {"popleft", "rotate"} - {"append", "extend", "insert", "add", "update"}:
                return False
            if isinstance(n, ast.Attribute) and isinstance(n.ctx, (ast.Store, ast.Del)) and n.attr == "send_queue":
                return False
            if isinstance(n, (ast.Subscript,)) and isinstance(n.ctx, ast.Del) and _achain(fi, n.value) == "self.send_queue":
                return False
    return True


def _index_error_caught(node) -> bool:
    """the node lies in the body of a try that handles IndexError (an empty queue ends the drain by the exception)"""
    cur = node
    for a in ancestors(node):
        if isinstance(a, (ast.FunctionDef, ast.AsyncFunctionDef, ast.Lambda)):
            return False
        if isinstance(a, ast.Try) and any(cur is x or any(cur is y for y in ast.walk(x)) for x in a.body):
            for h in a.handlers:
                ts = [h.type] if not isinstance(h.type, ast.Tuple) else list(h.type.elts)
                if h.type is None or any(chain(t) in ("IndexError", "LookupError", "Exception", "BaseException") for t in ts):
                    return True
        if isinstance(a, (ast.With, ast.AsyncWith)) and any(cur is x for x in a.body):
            names = _suppress_items(a)
            if names is not None and set(names) & {"IndexError", "LookupError", "Exception", "BaseException"}:
                return True
        cur = a
    return False


class _SendVerdict:
    def __init__(self) -> None:
        self.sites = []         # (kind, fi, node, ok, why, facts)
        self.paths = []         # (switch, effects, ok)
        self.n_paths = 0
        self.entered = set()    # id of every function node executed (send, its helpers, closures)

    @property
    def ok(self) -> bool:
        kinds = {s[0] for s in self.sites}
        return all(s[3] for s in self.sites) and all(p[2] for p in self.paths) and "RAW" in kinds and "TUNNEL" in kinds and self.n_paths >= 5


def _send_paths(ctx, te, fi) -> _SendVerdict:
    it = _SendPaths(ctx, fi, te)
    outs = it.start()
    v = _SendVerdict()
    by_site = {}
    for e in it.all_events:
        by_site.setdefault((e.kind, id(e.node)), []).append(e)
    for (kind, _), evs in by_site.items():
        bad = [e for e in evs if not e.ok]
        e0 = bad[0] if bad else evs[0]
        v.sites.append((kind, e0.fi, e0.node, not bad, e0.why, e0.facts))
    seen = {}
    for kind, st in outs:
        if kind != "return":
            continue
        v.n_paths += 1
        sw = it.switch(st.facts.items())
        eff = {x for x in st.effects if x in ("RAW", "TUNNEL", "QUEUE")}
        ok = (sw == {ON} and "RAW" not in eff) or (sw == {OFF} and not (eff & {"TUNNEL", "QUEUE"}))
        key = ("/".join(sorted(sw)) or "undecided", "+".join(sorted(eff)) or "DROP")
        if key not in seen:
            seen[key] = ok
            v.paths.append((key[0], key[1], ok))
    v.entered = set(it.entered)
    return v


def _send_symbolic(ctx):
    """(verdict | None, reason it is undecided | None) of the symbolic analysis of TunnelEndpoint.send, computed once per run"""
    got = getattr(ctx, "_c07_send_symbolic", None)
    if got is None:
        te = ctx.repo.cls("TunnelEndpoint", EP)
        fi = ctx.repo.method("TunnelEndpoint", "send", EP)
        try:
            got = (_send_paths(ctx, te, fi), None)
        except _Und as u:
            got = (None, u)
        ctx._c07_send_symbolic = got
    return got


def _emit_send_verdict(ctx, fi, v: _SendVerdict) -> None:
    text = {"RAW": ("RAW: endpoint.send only for the very packet / address of send() with its anonymity switch off",
                    "a packet of an anonymized overlay can be handed to the raw socket"),
            "TUNNEL": ("TUNNEL: send_data only over a READY circuit from find_circuits(exit_flags=[EXIT_IPV8], hops=self.hops)",
                       "tunnel send is not restricted to a ready IPv8-exit circuit of the configured length"),
            "QUEUE": ("QUEUE: only packets of anonymized overlays wait for a circuit", "queue append outside the anonymized branch"),
            "DRAIN": ("queue drained only while it is not empty", "drain is not guarded by the send queue being non-empty"),
            "OTHER": ("effect is RAW/TUNNEL/QUEUE/circuit management", "TunnelEndpoint.send has an unclassified effect")}
    for kind, sfi, node, ok, why, facts in v.sites:
        desc, reason = text[kind]
        shown = [f"{'' if p else 'not '}{_show(k)}" for k, p in facts][:12]
        ctx.check(ok, "send-classification", sfi if hasattr(sfi, "where") and not isinstance(sfi, _LambdaInfo) else fi, node,
                  desc + " (symbolic paths)", f"{reason} ({why})" if why else reason, shown)
    for sw, eff, ok in v.paths:
        ctx.instance("send-classification.paths", fi.where, f"path anonymity={sw} effects={eff}", ok=ok)
        if not ok:
            ctx.violation("send-classification.paths", fi, fi.node, f"a path of TunnelEndpoint.send with anonymity switch={sw} has effects {eff}")
    ctx.extra["send_paths"] = {f"anonymize={sw} effect={eff}": 1 for sw, eff, _ in v.paths}
    ctx.floor("send-classification.paths", v.n_paths, 5)


def _show(v) -> str:
    v = _strip(v)
    ch = _vchain(v)
    if ch is not None:
        return ch
    tag = v[0]
    if tag == "const":
        return repr(v[1])
    if tag == "cmp":
        return f"{_show(v[2])} {v[1]} {_show(v[3])}"
    if tag == "pcall":
        return f"{_show(v[1])}({', '.join(_show(x) for x in v[2] if type(x) is tuple and x and isinstance(x[0], str))})"
    if tag == "slice":
        return f"{_show(v[1])}[{'' if v[2] == _NONE else _show(v[2])}:{'' if v[3] == _NONE else _show(v[3])}]"
    if tag == "sub":
        return f"{_show(v[1])}[{_show(v[2])}]"
    if tag in ("elem", "call", "unknown", "qitem", "loopvar", "queue", "comp"):
        return f"<{tag}{'' if len(v) < 2 or not isinstance(v[1], (int, str)) else ' ' + str(v[1])}>"
    if tag in ("truth", "not"):
        return f"{tag}({_show(v[1])})"
    if tag == "attr":
        return f"{_show(v[1])}.{v[2]}"
    return f"<{tag}>"


class _Rec:
    """Stands in for the rule context: records what a rule would report, to be replayed on the real context or discarded."""

    def __init__(self, ctx) -> None:
        self._ctx = ctx
        self.repo = ctx.repo
        self.extra = {}
        self.ops = []
        self.bad = 0

    def cfg(self, fi):
        return self._ctx.cfg(fi)

    def check(self, cond, *a, **k) -> bool:
        self.ops.append(("check", (cond, *a), k))
        self.bad += not cond
        return bool(cond)

    def instance(self, *a, **k) -> None:
        self.ops.append(("instance", a, k))
        self.bad += k.get("ok", True) is False

    def violation(self, *a, **k) -> None:
        self.ops.append(("violation", a, k))
        self.bad += 1

    def anchor(self, value, what: str):
        return self._ctx.anchor(value, what)

    def floor(self, rule: str, found: int, minimum: int) -> None:
        self.ops.append(("floor", (rule, found, minimum), {}))
        if found < minimum:
            raise AnalysisError(f"instance floor not met for {self._ctx.rule_id(rule)}: found {found} < confirmed {minimum}")

    def replay(self) -> None:
        for op, a, k in self.ops:
            getattr(self._ctx, op)(*a, **k)
        self._ctx.extra.update(self.extra)


# ------------------------------------------------------------------------------------ rules
def _send_reviewed(ctx) -> None:  # noqa: C901, PLR0912, PLR0915
    """TunnelEndpoint.send in (a local variation of) the reviewed shape: dominance facts per effect site + path classification"""
    repo = ctx.repo
    te = repo.cls("TunnelEndpoint", EP)
    fi = repo.method("TunnelEndpoint", "send", EP)
    cfg = ctx.cfg(fi)
    params = fi.params()
    addr, packet = params[1], params[2]
    sw = _Switch(fi, packet)
    helpers = _raw_helpers(repo, te)

    def eff_chain(c: ast.Call) -> str:
        return _achain(fi, c.func) or chain(c.func) or ""

    def helper_of(c: ast.Call):
        ch = chain(c.func) or ""
        return helpers.get(ch[5:]) if ch.startswith("self.") and ch.count(".") == 1 else None

    # ---- RAW sites: self.endpoint.send(...) and calls of raw-sending private helpers
    raw_sites = []          # (call, address expr, packet expr)
    for c in calls(fi):
        if eff_chain(c) == "self.endpoint.send":
            raw_sites.append((c, arg(c, 0, "socket_address"), arg(c, 1, "packet")))
        elif helper_of(c) is not None:
            hf, (ia, ip) = helper_of(c)
            raw_sites.append((c, _helper_arg(hf, c, ia), _helper_arg(hf, c, ip)))
    ctx.anchor(raw_sites, "raw send in TunnelEndpoint.send")
    for c, a_expr, p_expr in raw_sites:
        facts = facts_at(cfg, c)
        ok = sw.dominated(cfg, c, OFF)
        ok_pkt = _achain(fi, p_expr) == packet and _achain(fi, a_expr) == addr
        ctx.check(ok and ok_pkt, "send-classification", fi, c,
                  "RAW: endpoint.send only under falsy settings.get(packet[:22], False) for that very packet",
                  "a packet of an anonymized overlay can be handed to the raw socket", [str(f) for f in facts])
    # the packet that was classified is the packet that is sent: no rebinding of packet / address (or of the locals the switch is
    # read through) can reach the switch test or the raw send
    sensitive = set()
    for c, _, _ in raw_sites:
        sensitive.update(cfg.nodes_for(c))
    for n in cfg.nodes:
        if n.kind == "cond" and any(sw.edge(n, lab) is not None for lab in (True, False)):
            sensitive.add(n)
    for st in sw.alias_stmts:
        sensitive.update(cfg.nodes_for(st))
    rebinds = [d[0] for p in (packet, addr) for d in local_defs(fi, p)]
    for c, _, _ in raw_sites:
        bad = None
        for st in rebinds:
            starts = [v for n in cfg.nodes_for(st) for v, lab in n.succ if lab != "exc"]
            if starts and sensitive & cfg.reach(starts):
                bad = st
        ctx.check(bad is None, "send-classification", fi, c, "packet not rebound before the raw-send decision",
                  "the packet is rebound before the anonymity switch is evaluated")

    # ---- TUNNEL sites
    tun = ctx.anchor([c for c in calls(fi) if call_name(c) == "send_data"], "send_data in TunnelEndpoint.send")
    for c in tun:
        facts = _expand(fi, facts_at(cfg, c))
        sw_on = sw.dominated(cfg, c, ON)
        target = _achain(fi, arg(c, 0, "target")) or ""
        parts = target.split(".")
        cname = parts[0] if len(parts) == 3 and parts[1:] == ["hop", "address"] and parts[0] != "self" else None
        ok_addr = cname is not None

        def is_ready(f: Fact, cname=cname) -> bool:
            return f.op == "eq" and f.pos and {_achain(fi, f.left), _achain(fi, f.right)} == {f"{cname}.state", "CIRCUIT_STATE_READY"}
        ready = ok_addr and any(is_ready(f) for f in facts)
        nonnull = ok_addr and any((f.op == "truthy" and f.pos and _achain(fi, _unbool(f.left)) == cname)
                                  or (f.op == "is" and not f.pos and ((_is_none(f.right) and _achain(fi, f.left) == cname)
                                                                      or (_is_none(f.left) and _achain(fi, f.right) == cname)))
                                  for f in facts)
        ok_cid = ok_addr and _achain(fi, arg(c, 1, "circuit_id")) == f"{cname}.circuit_id"
        # the circuit comes from find_circuits(EXIT_IPV8, hops=self.hops) and is tested READY after its last (re)definition
        src_ok = fresh = False
        if ok_addr:
            src = _Source(fi)
            src_ok = src.name_pick(cname, 6) and src.finds > 0
            fresh = True
            for st, _, _ in local_defs(fi, cname):
                starts = [v for n in cfg.nodes_for(st) for v, lab in n.succ if lab != "exc"]
                r = cfg.reach(starts, cut_edge=lambda u, v, lab: any(is_ready(f) for f in _edge_facts(fi, u, lab)))
                if any(n in r for n in cfg.nodes_for(c)):
                    fresh = False
        dest = resolve(fi, arg(c, 2, "dest_address"))
        origin = resolve(fi, arg(c, 3, "source_address"))
        ok_args = origin is not None and const_value(origin) == ("0.0.0.0", 0) and dest is not None \
            and (isinstance(dest, ast.Name) or (isinstance(dest, ast.Subscript) and isinstance(dest.value, ast.Name)))
        recv_ok = isinstance(c.func, ast.Attribute) and _achain(fi, c.func.value) == "self.tunnel_community"
        ctx.check(sw_on and ready and fresh and nonnull and ok_addr and ok_cid and src_ok and ok_args and recv_ok,
                  "send-classification", fi, c,
                  "TUNNEL: send_data only over a READY circuit from find_circuits(exit_flags=[EXIT_IPV8], hops=self.hops)",
                  f"tunnel send is not restricted to a ready IPv8-exit circuit of the configured length "
                  f"(switch={sw_on} ready={ready and fresh} nonnull={nonnull} first_hop={ok_addr} circuit_id={ok_cid} source={src_ok} "
                  f"args={ok_args} receiver={recv_ok})",
                  [str(f) for f in facts])
    # drain: items are taken from the queue only while it is not empty (the test may be the loop condition or a guard in the loop)
    for c in calls(fi):
        if eff_chain(c) not in ("self.send_queue.popleft", "self.send_queue.pop"):
            continue
        loop = next((a for a in ancestors(enclosing_stmt(c)) if isinstance(a, ast.While)), None)
        facts = facts_at(cfg, c)
        ctx.check(any(_queue_nonempty_fact(fi, f) for f in _expand(fi, facts)), "send-classification", fi, loop if loop is not None else c,
                  "queue drain loops while self.send_queue", "drain loop condition is not the send queue", [str(f) for f in facts])

    # ---- every call in send is RAW / TUNNEL / QUEUE / circuit management / free of effects
    allowed = {"self.endpoint.send", "self.send_queue.append", "self.send_queue.popleft", "self.send_queue.pop"}
    undecided = []
    for c in calls(fi):
        ch = eff_chain(c)
        ok = ch in allowed or ch in _PURE or ch.startswith(_LOG_PREFIX) or call_name(c) in ("send_data", "find_circuits", "create_circuit") \
            or helper_of(c) is not None
        if not ok and ch.startswith("self.") and ch.count(".") == 1 and call_name(c) in te.methods and call_name(c) != "send":
            eff = _effects(te, te.methods[call_name(c)], frozenset({call_name(c)}))
            if not eff:
                ok = True       # a helper that neither sends, queues nor stores
            elif not any(e.startswith("OTHER") or e == "RAW" for e in eff):
                undecided.append(f"undecided: TunnelEndpoint.send routes through helper `{ch}` ({', '.join(sorted(eff))}) that could not be inlined")
                continue
        ctx.check(ok, "send-classification", fi, c, f"effect `{ch}` is RAW/TUNNEL/QUEUE/circuit management",
                  f"TunnelEndpoint.send has an unclassified effect `{ch}`")

    # ---- path enumeration: classify the effects of every path
    paths = cfg.paths()
    kinds = {}
    for p in paths:
        eff = []
        sw_val = None
        for node, lab in p:
            v = sw.edge(node, lab)
            if v is not None:
                sw_val = v == ON
            if node.ast is not None and node.kind in ("stmt", "cond"):
                for c in [x for x in ast.walk(node.ast) if isinstance(x, ast.Call)]:
                    ch = eff_chain(c)
                    if ch == "self.endpoint.send" or helper_of(c) is not None:
                        eff.append("RAW")
                    elif call_name(c) == "send_data":
                        eff.append("TUNNEL")
                    elif ch == "self.send_queue.append":
                        eff.append("QUEUE")
        if p[-1][0] is cfg.raise_exit:
            continue
        cls = "+".join(sorted(set(eff))) or "DROP"
        kinds[(sw_val, cls)] = kinds.get((sw_val, cls), 0) + 1
        ok = not (sw_val is True and "RAW" in eff) and not (sw_val is False and ("TUNNEL" in eff or "QUEUE" in eff)) and sw_val is not None
        ctx.instance("send-classification.paths", fi.where, f"path anonymity={sw_val} effects={cls}", ok=ok)
        if not ok:
            ctx.violation("send-classification.paths", fi, fi.node,
                          f"a path of TunnelEndpoint.send with anonymity switch={sw_val} has effects {cls}")
    ctx.extra["send_paths"] = {f"anonymize={k[0]} effect={k[1]}": v for k, v in sorted(kinds.items(), key=str)}
    ctx.floor("send-classification.paths", len(paths), 5)
    if undecided:
        raise AnalysisError(undecided[0])


def rule_send(ctx: Ctx) -> None:
    """
    Two analyses of TunnelEndpoint.send, each sufficient on its own: the site/dominance analysis of the reviewed shape, and - when
    that does not recognise the function (or objects) - symbolic execution of every path through send, its helpers and closures.
    A violation is reported only if neither establishes the classification.
    """
    fi = ctx.repo.method("TunnelEndpoint", "send", EP)
    rec = _Rec(ctx)
    err = None
    try:
        _send_reviewed(rec)
    except AnalysisError as e:
        err = e
    except (IndexError, KeyError, AttributeError, TypeError, ValueError) as e:
        err = AnalysisError(f"anchor-lost: reviewed shape of TunnelEndpoint.send ({type(e).__name__})")
    if err is None and not rec.bad and _wrapping_decorators(fi.node):
        # `send` denotes what its decorators return: the shape of the body alone decides nothing, wrapper and body are judged on paths
        err = AnalysisError("TunnelEndpoint.send is wrapped by decorators")
    if err is None and not rec.bad and not _FORCE_PATHS:
        rec.replay()
        return
    verdict, und = _send_symbolic(ctx)
    if verdict is not None and verdict.ok:
        _emit_send_verdict(ctx, fi, verdict)
        return
    if _FORCE_PATHS:
        if verdict is None:
            raise AnalysisError(f"undecided: symbolic paths of TunnelEndpoint.send: {und}")
        _emit_send_verdict(ctx, fi, verdict)
        return
    if verdict is None:
        # neither analysis applies to this shape: what the site analysis may have found is not reliable either
        raise AnalysisError(f"undecided: TunnelEndpoint.send: {err or 'the reviewed shape is not recognised'}; symbolic paths: {und}")
    if err is None:
        rec.replay()            # the findings of the site analysis, as before
        return
    failing = [sx for sx in verdict.sites if not sx[3]]
    if failing and all("not tracked" in sx[4] for sx in failing) and all(p[2] for p in verdict.paths):
        raise AnalysisError(f"undecided: TunnelEndpoint.send: {err}; symbolic paths: {failing[0][4]}")
    if failing or any(not p[2] for p in verdict.paths):
        _emit_send_verdict(ctx, fi, verdict)
        return
    raise AnalysisError(f"{err}; symbolic paths: no raw / tunnel send reached")


def _module_value(repo, fi, e):
    """the expression a local alias / module-level name stands for (one step each), else the expression itself"""
    if isinstance(e, ast.Name):
        e = resolve(fi, e)
    if isinstance(e, ast.Name):
        r = repo.resolve_name(fi.module, e.id)
        if isinstance(r, tuple) and len(r) == 3 and r[0] == "const":
            return r[2]
    return e


def _call_parts(repo, fi, v: ast.Call):
    """(callee, positional arguments, {keyword: value}) of a call after expanding functools.partial(...) callees and **{literal} arguments"""
    if any(isinstance(a, ast.Starred) for a in v.args):
        return None
    func, args, kws = v.func, list(v.args), {}
    for k in v.keywords:
        if k.arg is not None:
            kws[k.arg] = k.value
            continue
        d = _module_value(repo, fi, k.value)
        if not isinstance(d, ast.Dict) or not all(isinstance(x, ast.Constant) and isinstance(x.value, str) for x in d.keys):
            return None
        kws.update({x.value: y for x, y in zip(d.keys, d.values)})
    for _ in range(3):
        f = _module_value(repo, fi, func)
        if isinstance(f, ast.Call) and (chain(f.func) or "").split(".")[-1] == "partial" and f.args:
            inner = _call_parts(repo, fi, f)
            if inner is None:
                return None
            func, args, kws = inner[1][0], inner[1][1:] + args, {**inner[2], **kws}
        else:
            break
    return func, args, kws


def _bounded_deque(repo, te, fi, v, depth: int = 3) -> bool:
    """the expression builds deque(..., maxlen=<positive constant>) - directly, through a local, or through a method of the class that returns one"""
    v = strip_cast(v) if v is not None else None
    if isinstance(v, ast.Name):
        v = resolve(fi, v)
    if isinstance(v, ast.IfExp):
        return _bounded_deque(repo, te, fi, v.body, depth) and _bounded_deque(repo, te, fi, v.orelse, depth)
    if not isinstance(v, ast.Call):
        return False
    parts = _call_parts(repo, fi, v)
    if parts is not None and (chain(parts[0]) or "").split(".")[-1] == "deque":
        ml = parts[1][1] if len(parts[1]) > 1 else parts[2].get("maxlen")
        mlv = _fold(repo, fi.module, ml, fi.cls) if ml is not None else None
        return isinstance(mlv, int) and not isinstance(mlv, bool) and mlv > 0
    ch = chain(v.func) or ""
    if depth > 0 and isinstance(v.func, ast.Name):
        hf = repo.resolve_name(fi.module, v.func.id)
        if hasattr(hf, "node") and hasattr(hf, "qualname") and not hasattr(hf, "methods") and hf.cls is None:
            # a plain function of the module that returns the queue
            rets = [r for r in walk_no_nested(hf.node) if isinstance(r, ast.Return)]
            return bool(rets) and not hf.is_async and not _is_generator(hf.node) \
                and all(r.value is not None and _bounded_deque(repo, te, hf, r.value, depth - 1) for r in rets)
    if depth > 0 and ch.startswith(("self.", "cls.")) and ch.count(".") == 1 and ch.split(".")[1] in te.methods:
        hf = te.methods[ch.split(".")[1]]
        rets = [r for r in walk_no_nested(hf.node) if isinstance(r, ast.Return)]
        return bool(rets) and not hf.is_async and not _is_generator(hf.node) \
            and all(r.value is not None and _bounded_deque(repo, te, hf, r.value, depth - 1) for r in rets)
    return False


def _only_from_init(repo, te, fi, depth: int = 3) -> bool:
    """__init__, or a private method that nothing but __init__ (through such methods) mentions"""
    if fi.name == "__init__":
        return True
    if depth <= 0 or not fi.name.startswith("_") or fi.name.startswith("__"):
        return False
    found = False
    for m in repo.modules.values():
        for n in ast.walk(m.tree):
            if (isinstance(n, ast.Attribute) and n.attr == fi.name) or (isinstance(n, ast.Constant) and n.value == fi.name):
                f = repo.function_of(n)
                if f is None or f.cls is not te or not _only_from_init(repo, te, f, depth - 1):
                    return False
                found = True
    return found


def rule_queue(ctx: Ctx) -> None:
    repo = ctx.repo
    te = repo.cls("TunnelEndpoint", EP)
    writes = []
    for fi in te.methods.values():
        for st, _ in stores(fi, "self.send_queue"):
            writes.append((fi, st))
    ctx.anchor(writes, "send_queue assignment")
    for fi, st in writes:
        ok = _only_from_init(repo, te, fi) and _bounded_deque(repo, te, fi, getattr(st, "value", None))
        ctx.check(ok, "bounded-queue", fi, st, "send_queue = deque(maxlen=<positive constant>) assigned once in __init__",
                  "the queue of packets waiting for a circuit is unbounded or rebound")
    ctx.check(len([1 for fi, _ in writes if _only_from_init(repo, te, fi)]) <= 1, "bounded-queue", te.where, "send_queue",
              "send_queue assigned once", "the queue of packets waiting for a circuit is rebound")
    own = {id(n) for n in ast.walk(te.node) if isinstance(n, (ast.FunctionDef, ast.AsyncFunctionDef, ast.Lambda))}
    for m, fi, a in repo.attribute_uses("send_queue"):
        ok = fi is not None and fi.cls is te
        if not ok and fi is not None and fi.cls is not None and fi.module is te.module and fi.cls.name.startswith("_") \
                and not fi.cls.name.startswith("__") and not fi.cls.base_names:
            # a private helper object of the module that only TunnelEndpoint makes and that is merely handed the queue: it may use
            # it, not replace it (its own field of that name is set from a parameter only)
            ok = _used_only_by(ctx, fi.cls.name, fi.cls.node, own)
            if isinstance(a.ctx, ast.Store):
                stv = getattr(enclosing_stmt(a), "value", None)
                ok = ok and isinstance(stv, ast.Name) and is_param(fi, stv.id) and not local_defs(fi, stv.id)
        ctx.check(ok, "bounded-queue", fi or m.relpath, a, "send_queue used only inside TunnelEndpoint",
                  "send_queue is accessed from outside TunnelEndpoint")


def _referenced_only_from(ctx, te, fi, entered: set) -> bool:
    """every mention of the method's name (attribute, bare name in a class-level table, string for getattr) lies in a function of `entered`"""
    for m in ctx.repo.modules.values():
        for n in ast.walk(m.tree):
            named = (isinstance(n, ast.Attribute) and n.attr == fi.name) or (isinstance(n, ast.Name) and n.id == fi.name) \
                or (isinstance(n, ast.Constant) and n.value == fi.name)
            if not named:
                continue
            f = ctx.repo.function_of(n)
            if f is not None and id(f.node) in entered:
                continue
            if f is None and any(a is te.node for a in ancestors(n)):
                continue                    # a class-level table of TunnelEndpoint
            return False
    return True


def _table_symbolic(ctx, te):
    """(ok | None when undecided, interpreter | None) of set_anonymity on symbolic paths, computed once per run"""
    got = getattr(ctx, "_c07_table_symbolic", None)
    if got is None:
        try:
            got = _set_anonymity_paths(ctx, te, te.methods["set_anonymity"])
        except _Und:
            got = (None, None)
        ctx._c07_table_symbolic = got
    return got


def _raw_site_judged_in_send(ctx, te, fi, c) -> bool:
    """
    A raw send outside the body of TunnelEndpoint.send is still governed by the anonymity switch when it sits in a closure of send
    or in a private helper that only send (and what send runs) can reach - through a call, a dispatch table or a bound-method
    reference - and the symbolic analysis of send judged every execution of this very site (send-classification reports the rest).
    """
    verdict, _ = _send_symbolic(ctx)
    if verdict is None or id(fi.node) not in verdict.entered:
        return False
    judged = [sx for sx in verdict.sites if sx[0] == "RAW" and sx[2] is c]
    if not judged or not all(sx[3] for sx in judged):
        return False
    if enclosing_function(fi.node) is not None:
        return True                         # a closure of a function send runs
    if fi.cls is not te or not fi.name.startswith("_") or fi.name.startswith("__"):
        return False
    return _referenced_only_from(ctx, te, fi, verdict.entered)


def _kept_local(ctx, a, fi) -> bool:
    """
    `self.endpoint.send` mentioned without being called: acceptable only when the bound method merely lands in a local name (or is
    selected by a conditional expression / literal table that lands in one or is called on the spot) of a function that the
    symbolic analysis of send executed and judged - every call through that local is then a judged RAW effect.
    """
    verdict, _ = _send_symbolic(ctx)
    if verdict is None or not verdict.ok or id(fi.node) not in verdict.entered:
        return False
    cur = a
    for p_ in ancestors(a):
        if isinstance(p_, (ast.IfExp, ast.BoolOp, ast.Tuple, ast.List, ast.Dict, ast.NamedExpr)):
            cur = p_
            continue
        if isinstance(p_, ast.Subscript) and p_.value is cur:
            cur = p_
            continue
        if isinstance(p_, ast.Call) and p_.func is not cur and p_.args and p_.args[0] is cur \
                and (chain(p_.func) or "").split(".")[-1] == "partial":
            cur = p_                        # partial(<bound send>, ...) is the bound send with some arguments fixed: a value the analysis tracks
            continue
        if isinstance(p_, ast.Call):
            return p_.func is cur
        if isinstance(p_, (ast.Assign, ast.AnnAssign)):
            targets = p_.targets if isinstance(p_, ast.Assign) else [p_.target]
            return all(isinstance(t, ast.Name) or (isinstance(t, (ast.Tuple, ast.List)) and all(isinstance(x, ast.Name) for x in t.elts)) for t in targets)
        return False
    return False


def _in_annotation(n) -> bool:
    cur = n
    for a in ancestors(n):
        if isinstance(a, ast.arg) or (isinstance(a, (ast.FunctionDef, ast.AsyncFunctionDef)) and a.returns is cur) \
                or (isinstance(a, ast.AnnAssign) and a.annotation is cur):
            return True
        if isinstance(a, ast.stmt):
            return False
        cur = a
    return False


def _used_only_by(ctx, name: str, own, entered: set) -> bool:
    """every mention of the private module-level class / function `name` lies in itself, in an annotation, or in a function that send runs"""
    for m in ctx.repo.modules.values():
        for n in ast.walk(m.tree):
            named = (isinstance(n, ast.Attribute) and n.attr == name) or (isinstance(n, ast.Name) and n.id == name) \
                or (isinstance(n, ast.Constant) and n.value == name) or (isinstance(n, ast.alias) and name in (n.name, n.asname))
            if not named:
                continue
            if any(a is own for a in ancestors(n)) or _in_annotation(n):
                continue
            if isinstance(n, ast.alias):
                continue                    # an import only brings the name into a module: every use of it there is a mention judged here
            par = parent(n)
            if isinstance(par, ast.ClassDef) and any(n is b for b in par.bases) and par.name == "TunnelEndpoint" \
                    and ctx.repo.try_cls("TunnelEndpoint", EP) is not None and ctx.repo.cls("TunnelEndpoint", EP).node is par:
                continue                    # a private mixin base of TunnelEndpoint itself: its methods are methods of the endpoint
            f = ctx.repo.function_of(n)
            if f is not None and id(f.node) in entered:
                continue
            return False
    return True


def _raw_sites_elsewhere(ctx, te) -> list:
    """
    Raw sends that the symbolic analysis of send met outside TunnelEndpoint's own methods - in a private callable class or plain
    function of the same module that send uses in place of a closure: [(function, call, ok)]. ok: every execution of the site was
    judged a proper RAW effect, and nothing but send (and what send runs) can get at that class / function.
    """
    verdict, _ = _send_symbolic(ctx)
    if verdict is None:
        return []
    out = {}
    for kind, sfi, node, ok, _why, _facts in verdict.sites:
        if kind != "RAW" or isinstance(sfi, _LambdaInfo) or sfi.cls is te:
            continue
        outer = sfi
        while enclosing_function(outer.node) is not None:
            outer = ctx.repo.info(enclosing_function(outer.node))       # a closure (e.g. the wrapper a private decorator returns): judged with its owner
        if outer.cls is te:
            continue
        owner = outer.cls if outer.cls is not None else outer
        base = owner.module.relpath.rsplit("/", 1)[-1]
        private = (owner.name.startswith("_") and not owner.name.startswith("__")) or (base.startswith("_") and not base.startswith("__"))
        closed = private and _used_only_by(ctx, owner.name, owner.node, verdict.entered)
        if closed and outer.cls is not None and any(c is outer.cls for c in te.mro()):
            # a method the endpoint inherits from a private mixin: like a private helper method, only send (and what it runs) may mention it
            closed = outer.name.startswith("_") and not outer.name.startswith("__") and _referenced_only_from(ctx, te, outer, verdict.entered)
        prev = out.get(id(node))
        out[id(node)] = (sfi, node, bool(ok and closed and (prev is None or prev[2])))
    return list(out.values())


def rule_who(ctx: Ctx) -> None:
    repo = ctx.repo
    te = repo.cls("TunnelEndpoint", EP)
    helpers = _raw_helpers(repo, te)
    n = 0
    for sfi, node, ok in _raw_sites_elsewhere(ctx, te):
        n += 1
        ctx.check(ok, "raw-send", sfi, node, "raw endpoint.send in a private helper that only TunnelEndpoint.send uses",
                  "the wrapped endpoint's send is called outside the anonymity switch")
    for fi in [f for f in repo.all_functions() if f.cls is te]:
        for c in calls(fi):
            if (_achain(fi, c.func) or chain(c.func)) != "self.endpoint.send":
                continue
            n += 1
            # a private helper called from send only is judged at its call sites in send (send-classification)
            ok = fi.qualname == "TunnelEndpoint.send" or (fi.qualname == f"TunnelEndpoint.{fi.name}" and fi.name in helpers)
            if not ok:
                ok = _raw_site_judged_in_send(ctx, te, fi, c)
            ctx.check(ok, "raw-send", fi, c, "raw endpoint.send only in TunnelEndpoint.send",
                      "the wrapped endpoint's send is called outside the anonymity switch")
        # handing out the raw endpoint's bound send method
        for a in walk_no_nested(fi.node):
            par = getattr(a, "_parent", None)
            if isinstance(a, ast.Attribute) and chain(a) == "self.endpoint.send" and not (isinstance(par, ast.Call) and par.func is a):
                n += ctx.check(_kept_local(ctx, a, fi), "raw-send", fi, a, "no escaping reference to the raw send", "raw send method escapes")
    ctx.floor("raw-send", n, 1)
    # nobody reaches under the wrapper
    for m in repo.modules.values():
        for node in ast.walk(m.tree):
            if isinstance(node, ast.Attribute) and node.attr == "endpoint" and isinstance(node.value, ast.Attribute) \
                    and node.value.attr == "endpoint":
                fi = repo.function_of(node)
                ok = fi is not None and fi.cls is te
                ctx.check(ok, "raw-send", fi or m.relpath, node, "no `.endpoint.endpoint` outside TunnelEndpoint",
                          "code reaches under the TunnelEndpoint wrapper to the raw endpoint")
    # ... nor by the dynamic spelling of the same read: getattr(<an endpoint>, "endpoint"[, default]) hands out the wrapped raw
    # endpoint of a TunnelEndpoint; only a pure type test of the result (isinstance / type) is harmless
    for m in repo.modules.values():
        for node in ast.walk(m.tree):
            if not (isinstance(node, ast.Call) and chain(node.func) == "getattr" and len(node.args) >= 2 and const_value(node.args[1]) == "endpoint"):
                continue
            fi = repo.function_of(node)
            base = node.args[0]
            bch = (_achain(fi, base) if fi is not None else chain(base)) or ""
            inner_getattr = isinstance(strip_cast(base), ast.Call) and chain(strip_cast(base).func) == "getattr" \
                and len(strip_cast(base).args) >= 2 and const_value(strip_cast(base).args[1]) == "endpoint"
            if not (bch == "endpoint" or bch.endswith(".endpoint") or inner_getattr):
                continue
            if fi is not None and fi.cls is te:
                continue
            par = getattr(node, "_parent", None)
            if isinstance(par, ast.Call) and chain(par.func) in ("isinstance", "type", "issubclass", "hasattr") and par.args and par.args[0] is node:
                continue
            ctx.check(False, "raw-send", fi or m.relpath, node, 'no getattr(<endpoint>, "endpoint") outside TunnelEndpoint',
                      "code reaches under the TunnelEndpoint wrapper to the raw endpoint (getattr spelling of `.endpoint.endpoint`): "
                      "what is sent through the result bypasses the anonymity switch of TunnelEndpoint.send")
    # __getattr__ style forwarding would also leak the raw send
    ctx.check("__getattr__" not in te.methods and "__getattribute__" not in te.methods, "raw-send", te.where, "__getattr__",
              "TunnelEndpoint has no attribute forwarding", "TunnelEndpoint forwards unknown attributes to the raw endpoint")


def _is_true(e) -> bool:
    return isinstance(e, ast.Constant) and e.value is True


def _is_false(e) -> bool:
    return isinstance(e, ast.Constant) and e.value is False


def _delivery_filter(ctx: Ctx, nl) -> None:
    """
    Path-sensitive: on every path to _deliver_later(listener, ...) the tests taken since the listener was bound say that
    getattr(listener, "anonymize", False) equals from_tunnel (one equality test, or both truth values known and equal).
    """
    cfgn = ctx.cfg(nl)
    from_tunnel = nl.params()[2]
    dl = [c for c in calls(nl) if call_name(c) == "_deliver_later"]
    judged = {}

    def is_anon(e, listener) -> bool:
        e = _unbool(resolve(nl, e))
        return isinstance(e, ast.Call) and chain(e.func) == "getattr" and len(e.args) == 3 and not e.keywords \
            and const_value(e.args[1]) == "anonymize" and _falsy_default(e.args[2]) and _achain(nl, e.args[0]) == listener

    def is_ft(e) -> bool:
        return _achain(nl, _unbool(e)) == from_tunnel

    def state_of(fs: list[Fact], listener):
        """(equality known, anonymize value, from_tunnel value) from a list of facts; None when the facts contradict each other"""
        eqs, avs, tvs = set(), set(), set()
        for f in fs:
            if f.op in ("eq", "is") and ((is_anon(f.left, listener) and is_ft(f.right)) or (is_anon(f.right, listener) and is_ft(f.left))):
                eqs.add(f.pos)
            elif f.op == "truthy" and is_anon(f.left, listener):
                avs.add(f.pos)
            elif f.op == "truthy" and is_ft(f.left):
                tvs.add(f.pos)
            elif f.op in ("eq", "is") and f.pos:
                for x, y in ((f.left, f.right), (f.right, f.left)):
                    if isinstance(y, ast.Constant) and isinstance(y.value, bool):
                        if is_anon(x, listener):
                            avs.add(y.value)
                        elif is_ft(x):
                            tvs.add(y.value)
        if len(eqs) > 1 or len(avs) > 1 or len(tvs) > 1:
            return None         # the same (side-effect free) test taken both ways: not an execution
        return (next(iter(eqs), None), next(iter(avs), None), next(iter(tvs), None))

    def allowed(st) -> bool:
        eq, a, t = st
        if eq is False or (a is not None and t is not None and a != t):
            return False
        return eq is True or (a is not None and a == t)

    paths = cfgn.paths()
    for c in dl:
        lexpr = arg(c, 0, "listener")
        listener = _achain(nl, lexpr)
        sites = set(cfgn.nodes_for(c))
        facts = facts_at(cfgn, c)
        st = state_of(_expand(nl, facts), listener)
        ok = st is not None and allowed(st)
        if not ok and listener is not None:
            # the listeners were filtered when the iterated list was built: [l for l in ... if getattr(l, "anonymize", False) == from_tunnel]
            d = [x for x in local_defs(nl, listener)]
            if len(d) == 1 and isinstance(d[0][0], ast.For) and isinstance(d[0][0].target, ast.Name):
                it0 = strip_cast(d[0][0].iter)
                it = resolve(nl, it0)
                if isinstance(it0, ast.Name) and _mutated(nl, it0.id):
                    it = None
                if isinstance(it, (ast.ListComp, ast.GeneratorExp, ast.SetComp)) and len(it.generators) == 1 \
                        and isinstance(it.generators[0].target, ast.Name) and isinstance(it.elt, ast.Name) \
                        and it.elt.id == it.generators[0].target.id and not it.generators[0].is_async:
                    fs = [f for cond in it.generators[0].ifs for f in _atoms_with_polarity(cond, True)]
                    st = state_of(fs, it.elt.id)
                    ok = st is not None and allowed(st)
        if not ok:
            # no single dominating test: look at the tests taken on each path since the listener was (re)bound
            seen_site = False
            ok = True
            for p in paths:
                cur: list[Fact] = []
                for node, lab in p:
                    if node.kind == "loop":
                        cur = []
                    if node in sites:
                        st = state_of(cur, listener)
                        if st is None:
                            break
                        seen_site = True
                        if not allowed(st):
                            ok = False
                    cur = cur + _edge_facts(nl, node, lab)
            ok = ok and seen_site
        judged[id(c)] = (nl, c, ok, [str(f) for f in facts])
    if _wrapping_decorators(nl.node):
        judged = {}             # notify_listeners denotes what its decorators return: wrapper and body are judged together on paths
    if not judged or not all(j[2] for j in judged.values()) or _FORCE_PATHS:
        # the filter may live in a helper / generator / closure / filter(): decide on symbolic paths
        try:
            for k, (hf, c, ok) in _deliver_paths(ctx, ctx.repo.cls("TunnelEndpoint", EP), nl).items():
                if ok or k not in judged:
                    judged[k] = (hf, c, ok, [])
        except _Und as u:
            if not judged:
                raise AnalysisError(f"undecided: _deliver_later reached from TunnelEndpoint.notify_listeners: {u}") from None
    ctx.anchor(list(judged), "_deliver_later in TunnelEndpoint.notify_listeners")
    for hf, c, ok, shown in judged.values():
        ctx.check(ok, "delivery-filter", hf, c, "listener receives the packet only if listener.anonymize == from_tunnel",
                  "tunnel-delivered packets reach plain overlays or socket packets reach anonymized overlays", shown)


def _table_put(fi, c: ast.Call):
    """(key, value) when the call is self.settings.update({k: v}) / self.settings.__setitem__(k, v), else None"""
    if not (isinstance(c.func, ast.Attribute) and _achain(fi, c.func.value) == "self.settings") or c.keywords:
        return None
    if c.func.attr == "__setitem__" and len(c.args) == 2:
        return c.args[0], c.args[1]
    if c.func.attr == "update" and len(c.args) == 1:
        d = resolve(fi, c.args[0])
        if isinstance(d, ast.Dict) and len(d.keys) == 1 and d.keys[0] is not None:
            return d.keys[0], d.values[0]
    return None


def _reaches_call(repo, fi, name: str, depth: int = 4, seen=None) -> bool:
    """does fi (or a method of its class that it calls on self, transitively) contain a call named `name`"""
    seen = set() if seen is None else seen
    if id(fi.node) in seen or depth < 0:
        return False
    seen.add(id(fi.node))
    for c in calls(fi, nested=True):
        if call_name(c) == name:
            return True
        if isinstance(c.func, ast.Attribute) and isinstance(c.func.value, ast.Name) and c.func.value.id in ("self", "cls") and fi.cls is not None:
            m = fi.cls.lookup(c.func.attr)
            if m is not None and _reaches_call(repo, m, name, depth - 1, seen):
                return True
        if isinstance(c.func, ast.Name):
            g = repo.resolve_name(fi.module, c.func.id)
            if g is not None and hasattr(g, "node") and hasattr(g, "qualname") and not hasattr(g, "methods") \
                    and _reaches_call(repo, g, name, depth - 1, seen):
                return True
    return False


def _is_getter(fi) -> bool:
    """a method that only computes a value: no stores into objects, no calls except type tests and other pure builtins"""
    for n in ast.walk(fi.node):
        if isinstance(n, ast.Call) and (chain(n.func) or "") not in _PURE_BUILTINS | {"cast", "bool", "getattr", "next", "iter", "list", "tuple"}:
            return False
        if isinstance(n, (ast.Attribute, ast.Subscript)) and isinstance(n.ctx, (ast.Store, ast.Del)):
            return False
        if isinstance(n, (ast.Yield, ast.YieldFrom, ast.Await, ast.Global, ast.Nonlocal)):
            return False
    return True


def _is_reader(fi) -> bool:
    """
    A function / generator that only reads: no stores into objects, no await / global / nonlocal; its calls are pure builtins, pure
    methods of containers (values(), items(), get() ...) or calls of other methods / plain functions (asked about in turn when followed).
    """
    for n in ast.walk(fi.node):
        if isinstance(n, ast.Call):
            ch = chain(n.func) or ""
            if ch in _PURE_BUILTINS | {"cast", "bool", "getattr", "next", "iter", "list", "tuple", "sorted", "reversed"}:
                continue
            if isinstance(n.func, ast.Attribute) and n.func.attr in _PURE_METHODS:
                continue
            if isinstance(n.func, ast.Name) or (isinstance(n.func, ast.Attribute) and isinstance(n.func.value, ast.Name)
                                                and n.func.value.id in ("self", "cls")):
                continue
            return False
        if isinstance(n, (ast.Attribute, ast.Subscript)) and isinstance(n.ctx, (ast.Store, ast.Del)):
            return False
        if isinstance(n, (ast.Await, ast.Global, ast.Nonlocal)):
            return False
    return True


class _OptInPaths(_Interp):
    """An overlay constructor on symbolic paths: every set_anonymity call it makes (directly, in helpers, in closures)."""

    def __init__(self, ctx, fi) -> None:
        super().__init__(ctx, fi)
        self.hits = []

    def follow(self, fi) -> bool:
        if fi.node is self.top.node or (fi.cls is None and enclosing_function(fi.node) is not None):
            return False
        # methods, and plain functions of any module that take the object (a block of the constructor that moved out of the class)
        return _reaches_call(self.repo, fi, "set_anonymity") or _is_getter(fi)

    def on_call(self, c, fv, args, kwargs, st):
        if fv[0] == "attr" and fv[2] == "set_anonymity":
            a0, a1 = _call_arg(args, kwargs, 0, "prefix"), _call_arg(args, kwargs, 1, "enable")
            self.hits.append({"node": c, "fi": st.frames[-1].fi, "recv": _strip(fv[1]), "a0": _strip(a0) if a0 else None,
                              "a1": _strip(a1) if a1 else None, "prefix": _strip(self.read_attr(_SELF, "_prefix", st)),
                              "anon": _strip(self.read_attr(_SELF, "anonymize", st)),
                              "facts": tuple((_strip(k), p) for k, p in st.facts.items())})
            st.effects.append(("SET_ANONYMITY", self.hits[-1]["recv"] == _T_SOCKET and self.hits[-1]["a0"] is not None
                               and self.hits[-1]["a0"] == self.hits[-1]["prefix"], self.hits[-1]["a1"]))
            st.epoch += 1
            return [(_NONE, st)]
        return None


def _endpoint_type_test(k) -> bool:
    """the tested value is a pure type test of self.endpoint: isinstance / hasattr / callable(getattr) / type(...) is - nothing about its state"""
    def of_endpoint(v) -> bool:
        return v[0] == "pcall" and v[1] in (("global", "isinstance"), ("global", "hasattr"), ("global", "type"), ("global", "issubclass")) \
            and len(v[2]) >= 1 and (v[2][0] == _T_SOCKET or of_endpoint(v[2][0]))
    k = _strip(k)
    if of_endpoint(k):
        return True
    return k[0] == "cmp" and k[1] in ("is", "eq") and (of_endpoint(k[2]) or of_endpoint(k[3])) \
        and all(of_endpoint(x) or x[0] in ("global", "const") for x in (k[2], k[3]))


def _opt_in_every_path(ctx, top):
    """
    Paths of the overlay constructor that complete, on which the overlay asked for anonymity (settings.anonymize / self.anonymize
    tested truthy), that do not register the request (no set_anonymity(self._prefix, True) on self.endpoint) and on which no type
    test of self.endpoint failed - the only reason the constructor has for not registering: [(tested facts shown)].  None = undecided.
    """
    it = _OptInPaths(ctx, top)
    try:
        outs = it.start()
    except _Und:
        return None
    ps = top.params()
    asked = set()
    if len(ps) > 1:
        asked = {("attr", ("param", ps[1]), "anonymize")} | \
            {("pcall", ("global", "getattr"), (("param", ps[1]), ("const", "anonymize"), d)) for d in (("const", False), ("const", None))}
    bad = []
    n = 0
    for kind, st in outs:
        if kind != "return":
            continue
        facts = [(_strip(k), p) for k, p in st.facts.items()]
        anon = _strip(it.read_attr(_SELF, "anonymize", st))
        if not any(p and (k in asked or k == anon) for k, p in facts):
            continue
        n += 1
        if any(type(e) is tuple and e[0] == "SET_ANONYMITY" and e[1] and e[2] == ("const", True) for e in st.effects):
            continue
        if any(not p and _endpoint_type_test(k) for k, p in facts):
            continue
        bad.append([f"{'' if p else 'not '}{_show(k)}" for k, p in facts][:12])
    return bad if n else None


def _opt_in_paths(ctx, top, want: bool) -> dict:
    """
    {id(call): (function, call, ok)} for every set_anonymity call reached from the constructor `top` on symbolic paths.  ok: the call
    is made on self.endpoint for self._prefix with the constant `want`, and (want=True) only on paths where settings.anonymize /
    self.anonymize was tested truthy.
    """
    it = _OptInPaths(ctx, top)
    it.start()
    ps = top.params()
    asked = set()
    if len(ps) > 1:
        asked = {("attr", ("param", ps[1]), "anonymize")} | \
            {("pcall", ("global", "getattr"), (("param", ps[1]), ("const", "anonymize"), d)) for d in (("const", False), ("const", None))}
    out = {}
    for h in it.hits:
        ok = h["recv"] == _T_SOCKET and h["a0"] is not None and h["a0"] == h["prefix"] and h["a1"] is not None \
            and h["a1"][0] == "const" and h["a1"][1] is want
        if ok and want:
            ok = any(p and (k in asked or k == h["anon"]) for k, p in h["facts"])
        hf = h["fi"]
        if ok and hf.node is not top.node and enclosing_function(hf.node) is None:
            # the call sits in a helper: it is judged for the arguments of this constructor only, so nobody else may call the helper
            for _, cf, _ in ctx.repo.callers_of_name(hf.name):
                if cf is None or id(cf.node) not in it.entered:
                    raise _Und(f"{hf.qualname} (calls set_anonymity) is also called from {cf.qualname if cf else 'module level'}")
        prev = out.get(id(h["node"]))
        out[id(h["node"])] = (hf if not isinstance(hf, _LambdaInfo) else top, h["node"], ok and (prev is None or prev[2]))
    return out


def rule_opt_in(ctx: Ctx) -> None:  # noqa: C901, PLR0912, PLR0915
    repo = ctx.repo
    init = repo.method("Community", "__init__", "ipv8/community.py")
    cfg = ctx.cfg(init)
    sa_calls = [c for c in calls(init) if call_name(c) == "set_anonymity" and isinstance(c.func, ast.Attribute)
                and _achain(init, c.func.value) == "self.endpoint"]
    judged = {}         # id(call) -> (function, call, ok): the opt-in sites
    for c in sa_calls:
        facts = _expand(init, facts_at(cfg, c))
        a0, a1 = arg(c, 0, "prefix"), arg(c, 1, "enable")
        ok = _achain(init, a0) == "self._prefix" and _is_true(resolve(init, a1)) \
            and any(f.op == "truthy" and f.pos and _achain(init, _unbool(f.left)) in ("settings.anonymize", "self.anonymize") for f in facts)
        judged[id(c)] = (init, c, ok)
    if not judged or not all(j[2] for j in judged.values()) or _FORCE_PATHS:
        # not (only) the reviewed shape: the call may sit behind a local alias of the endpoint, in a helper or a closure
        try:
            for k, j in _opt_in_paths(ctx, init, True).items():
                if j[2] or k not in judged:
                    judged[k] = j
        except _Und as u:
            if not judged:
                raise AnalysisError(f"undecided: set_anonymity reached from Community.__init__: {u}") from None
    ctx.anchor(list(judged), "set_anonymity in Community.__init__")
    for hf, c, ok in judged.values():
        ctx.check(ok, "opt-in", hf, c, "Community opts in with set_anonymity(self._prefix, True) under settings.anonymize",
                  "an overlay that asked for anonymity is not registered with the tunnel endpoint for its own prefix")
    # every path with settings.anonymize and a TunnelEndpoint reaches the call
    ctx.check(any(j[2] for j in judged.values()), "opt-in", init, init.node, "opt-in call present")
    missing = _opt_in_every_path(ctx, init)
    if missing is None:
        ctx.note("opt-in: the paths of Community.__init__ could not be enumerated symbolically; only the presence of the opt-in call is checked")
    else:
        ctx.check(not missing, "opt-in", init, init.node,
                  "every completing path of Community.__init__ with settings.anonymize on a TunnelEndpoint registers the request",
                  "Community.__init__ has a path on which the overlay asked for anonymity and the endpoint is a TunnelEndpoint, yet "
                  "set_anonymity(self._prefix, True) is not called (the registration depends on something else than the type of the "
                  "endpoint): the prefix never enters TunnelEndpoint.settings and TunnelEndpoint.send hands every packet of this "
                  "overlay to the raw socket", missing[0] if missing else None)
    # all set_anonymity(.., False) sites
    n = 0
    off_paths = None
    for m, fi, c in repo.callers_of_name("set_anonymity"):
        n += 1
        a0, a1 = arg(c, 0, "prefix"), arg(c, 1, "enable")
        if id(c) in judged:
            continue
        if fi is not None and fi.module.relpath.startswith("ipv8/REST/"):
            # REST isolation endpoint is an operator action, listed as assumption
            continue
        ok = fi is not None and fi.qualname == "TunnelCommunity.__init__" and _achain(fi, a0) == "self._prefix" \
            and _is_false(resolve(fi, a1))
        if not ok or _FORCE_PATHS:
            if off_paths is None:
                try:
                    off_paths = _opt_in_paths(ctx, repo.method("TunnelCommunity", "__init__", "ipv8/messaging/anonymization/community.py"), False)
                except (_Und, AnalysisError, KeyError):
                    off_paths = {}
            ok = ok or (id(c) in off_paths and off_paths[id(c)][2])
        ctx.check(ok, "opt-in", fi or m.relpath, c, "only the tunnel overlay disables anonymity, for its own prefix",
                  "anonymity is switched off for a prefix other than the tunnel overlay's own")
    ctx.floor("opt-in", n, 1)
    # the anonymity table of an endpoint is never written from outside the TunnelEndpoint (e.g. `self.endpoint.settings = {...}`)
    for m in repo.modules.values():
        for node in ast.walk(m.tree):
            if isinstance(node, ast.Attribute) and node.attr == "settings" and isinstance(node.value, ast.Attribute) and node.value.attr == "endpoint":
                p_ = getattr(node, "_parent", None)
                write = isinstance(node.ctx, (ast.Store, ast.Del)) or (isinstance(p_, ast.Subscript) and isinstance(p_.ctx, (ast.Store, ast.Del))) or \
                    (isinstance(p_, ast.Attribute) and p_.attr in ("pop", "clear", "update", "setdefault", "popitem") and isinstance(getattr(p_, "_parent", None), ast.Call))
                if write:
                    f2 = repo.function_of(node)
                    ctx.check(False, "opt-in", f2 or m.relpath, enclosing_stmt(node), "endpoint.settings is only written by set_anonymity",
                              "the anonymity table of the tunnel endpoint is overwritten from outside set_anonymity: anonymity requests registered earlier are lost and those overlays send raw")
    # settings dict written only by set_anonymity
    te = repo.cls("TunnelEndpoint", EP)

    def part_of_set_anonymity(fi) -> bool:
        """a private helper that only set_anonymity reaches, and set_anonymity (symbolically executed through it) records exactly the request"""
        if fi.name.startswith("__") or not fi.name.startswith("_"):
            return False
        ok_sym, it = _table_symbolic(ctx, te)
        return bool(ok_sym) and it is not None and id(fi.node) in it.entered and _referenced_only_from(ctx, te, fi, it.entered)
    for fi in te.methods.values():
        for st, t in stores(fi, ["self.settings[]", "self.settings"]):
            ok = fi.name in ("set_anonymity", "__init__") or part_of_set_anonymity(fi)
            ctx.check(ok, "opt-in", fi, st, "anonymity table written only by set_anonymity", "anonymity table rewritten elsewhere")
        for c in calls(fi):
            ch = chain(c.func) or ""
            if ch.startswith("self.settings.") and call_name(c) in ("pop", "clear", "update", "setdefault", "popitem", "__setitem__", "__delitem__"):
                if fi.name == "set_anonymity" and _table_put(fi, c) is not None:
                    continue        # judged below: the one recording store of set_anonymity
                ctx.check(part_of_set_anonymity(fi), "opt-in", fi, c, "no other mutation of the anonymity table", "anonymity table mutated outside set_anonymity")
    # set_anonymity records the requested value under the prefix on every path, and does nothing else to the table
    sa = te.methods["set_anonymity"]
    ps = sa.params()
    cfgs = ctx.cfg(sa)
    good = []
    others = 0
    fixed = not local_defs(sa, ps[1]) and not local_defs(sa, ps[2])
    for st, t in stores(sa, ["self.settings[]", "self.settings"]):
        v = getattr(st, "value", None)
        if isinstance(st, (ast.Assign, ast.AnnAssign)) and isinstance(t, ast.Subscript) and _achain(sa, t.value) == "self.settings" \
                and _achain(sa, t.slice) == ps[1] and _achain(sa, v) == ps[2] and fixed:
            good.append(st)
        else:
            others += 1
    for c in calls(sa):
        kv = _table_put(sa, c)
        if kv is not None:
            if _achain(sa, kv[0]) == ps[1] and _achain(sa, kv[1]) == ps[2] and fixed:
                good.append(enclosing_stmt(c))
            else:
                others += 1
    nodes = [n for st in good for n in cfgs.nodes_for(st)]
    # no normal completion that skips the store: cutting the store's normal out-edges must disconnect the exit
    ok = bool(good) and others == 0 and cfgs.exit not in cfgs.reach(cut_out_normal=nodes)
    if not ok or _FORCE_PATHS or _wrapping_decorators(sa.node):
        # the store may sit behind an alias of the table, in a helper, a loop over a literal, under a decorator's guard ...: decide on symbolic paths
        ok = _table_symbolic(ctx, te)[0]
        if ok is None and _wrapping_decorators(sa.node):
            raise AnalysisError("undecided: TunnelEndpoint.set_anonymity is wrapped by decorators the path analysis cannot enter")
    ctx.check(ok, "opt-in", sa, sa.node, "set_anonymity stores enable under the prefix", "set_anonymity does not record the requested switch")
    # delivery filter
    _delivery_filter(ctx, te.methods["notify_listeners"])


def rule_exit_flags(ctx: Ctx) -> None:
    """Circuit.exit_flags describes the LAST hop: by the reviewed shape of the property, or - when that is not recognised - by the values it returns on symbolic paths."""
    fi = ctx.repo.method("Circuit", "exit_flags", TUNNEL)
    rec = _Rec(ctx)
    err = None
    try:
        _exit_flags_reviewed(rec)
    except AnalysisError as e:
        err = e
    if err is None and not rec.bad and not _FORCE_PATHS:
        rec.replay()
        return
    try:
        verdict, detail = _exit_flags_paths(ctx, fi)
    except _Und as u:
        verdict, detail = None, str(u)
    reason = ("Circuit.exit_flags does not describe the last hop: find_circuits(exit_flags=[PEER_FLAG_EXIT_IPV8]) then selects "
              "circuits whose exit is not known to be IPv8-capable and TunnelEndpoint.send carries anonymized packets over them")
    if verdict is True:
        ctx.check(True, "exit-flags", fi, fi.node, "every value Circuit.exit_flags returns is the flags of the last hop, or empty (symbolic paths)")
        ctx.floor("exit-flags", 1, 1)
        return
    if err is None and not _FORCE_PATHS:
        rec.replay()
        return
    if verdict is False:
        ctx.check(False, "exit-flags", fi, fi.node, "Circuit.exit_flags reads the flags of the last hop (hops[-1])", f"{reason} (returns `{detail}`)")
        return
    raise err if err is not None else AnalysisError(f"undecided: Circuit.exit_flags: {detail}")


def _exit_flags_reviewed(ctx) -> None:
    """
    find_circuits(exit_flags=[PEER_FLAG_EXIT_IPV8]) compares the requested flags with Circuit.exit_flags.  The traffic leaves the
    circuit at its LAST hop, so "ending in an IPv8-capable exit" holds only if Circuit.exit_flags reads the flags of the last
    element of the hop list; the flags of the first hop (`self.hop`) or of any other position describe a relay.
    """
    repo = ctx.repo
    fi = repo.method("Circuit", "exit_flags", TUNNEL)
    reads = [a for a in walk_no_nested(fi.node) if isinstance(a, ast.Attribute) and a.attr == "flags" and isinstance(a.ctx, ast.Load)]
    ctx.anchor(reads, "read of <hop>.flags in Circuit.exit_flags")
    hop_lists = ("self.hops", "self._hops")

    def last_of(e) -> bool | None:
        """True: last hop; False: recognisably another hop; None: unknown shape"""
        e = resolve(fi, e)
        if isinstance(e, (ast.IfExp, ast.BoolOp)):
            # `hops[-1] if hops else None`, `hops and hops[-1]`: every alternative that is a hop must be the last one
            alts = [e.body, e.orelse] if isinstance(e, ast.IfExp) else list(e.values)
            vals = [last_of(x) for x in alts if not _is_none(x) and _achain(fi, x) not in hop_lists]
            if not vals or any(v is None for v in vals):
                return None
            return all(vals)
        if isinstance(e, ast.Subscript) and not isinstance(e.slice, ast.Slice) and _achain(fi, e.value) in hop_lists:
            i = e.slice
            if const_value(i) == -1:
                return True
            if isinstance(const_value(i), int):
                return False
            # hops[len(hops) - 1]
            if isinstance(i, ast.BinOp) and isinstance(i.op, ast.Sub) and const_value(i.right) == 1 and isinstance(i.left, ast.Call) \
                    and chain(i.left.func) == "len" and len(i.left.args) == 1 and _achain(fi, i.left.args[0]) in hop_lists:
                return True
            return None
        c = _achain(fi, e)
        if c in ("self.hop", "self.unverified_hop"):
            return False
        return None
    n = 0
    for a in reads:
        v = last_of(a.value)
        if v is None:
            raise AnalysisError(f"undecided: which hop Circuit.exit_flags reads the flags of (`{ast.unparse(a)}`)")
        n += 1
        ctx.check(v, "exit-flags", fi, a, "Circuit.exit_flags reads the flags of the last hop (hops[-1])",
                  "Circuit.exit_flags does not describe the last hop: find_circuits(exit_flags=[PEER_FLAG_EXIT_IPV8]) then selects "
                  "circuits whose exit is not known to be IPv8-capable and TunnelEndpoint.send carries anonymized packets over them")
    # some return hands these flags out
    rets = [s for s in walk_no_nested(fi.node) if isinstance(s, ast.Return) and s.value is not None
            and any(isinstance(x, ast.Attribute) and x.attr == "flags" for x in ast.walk(resolve(fi, s.value)))]
    ctx.check(bool(rets), "exit-flags", fi, fi.node, "Circuit.exit_flags returns the flags it read",
              "Circuit.exit_flags never returns the flags of a hop")
    ctx.floor("exit-flags", n, 1)


def rule_circuit_filter(ctx: Ctx) -> None:
    """
    TunnelEndpoint.send relies on find_circuits(exit_flags=[PEER_FLAG_EXIT_IPV8], hops=self.hops) to return only circuits whose
    exit advertises every requested flag and that have the requested length.  Every circuit find_circuits puts into its result
    must therefore lie on a path where `exit_flags is None` or `set(exit_flags) <= set(c.exit_flags)` was established (and
    `hops is None` or `hops == c.goal_hops`): a circuit admitted by any other test (unknown flags, first hop, ...) is not known to
    end in an IPv8-capable exit.
    """
    repo = ctx.repo
    tc = repo.cls("TunnelCommunity", "ipv8/messaging/anonymization/community.py")
    impls = repo.dispatch(tc, "find_circuits")
    ctx.anchor(impls, "TunnelCommunity.find_circuits")
    n = 0
    for fi in impls:
        try:
            judged = _circuit_filter(ctx, fi)
        except _Und as u:
            raise AnalysisError(f"undecided: {fi.qualname}: {u}") from None
        if not judged:
            raise AnalysisError(f"undecided: {fi.qualname}: no circuit is seen to be put into the result")
        und = [j for j in judged if j[2] is None or j[3] is None]
        for node, hf, f_ok, h_ok in judged:
            if f_ok is None or h_ok is None:
                continue
            n += 1
            where = hf if not isinstance(hf, _LambdaInfo) else fi
            ctx.check(f_ok, "circuit-filter", where, node, "find_circuits returns a circuit only if exit_flags is None or set(exit_flags) <= set(c.exit_flags)",
                      "find_circuits admits a circuit without establishing that its exit has every requested flag: "
                      "TunnelEndpoint.send(exit_flags=[PEER_FLAG_EXIT_IPV8]) then tunnels anonymized packets to exits not known to be IPv8-capable")
            ctx.check(h_ok, "circuit-filter", where, node, "find_circuits returns a circuit only if hops is None or hops == c.goal_hops",
                      "find_circuits admits a circuit of another length than requested: anonymized packets travel over a circuit "
                      "that does not have the configured number of hops")
        if und and not ctx.findings:
            raise AnalysisError(f"undecided: {fi.qualname}: a test on exit_flags / hops is not understood")
    ctx.floor("circuit-filter", n, 1)


COMM = "ipv8/messaging/anonymization/community.py"


def _is_advertised_flags(fi, v, payload: str) -> bool:
    """v is extract_peer_flags(<payload>.extra_bytes) of the payload this callback received (possibly through a local)"""
    v = resolve(fi, strip_cast(v)) if v is not None else None
    if not isinstance(v, ast.Call) or call_name(v) != "extract_peer_flags":
        return False
    a = arg(v, 0, "extra_bytes")
    return a is not None and _achain(fi, a) == f"{payload}.extra_bytes"


def _candidate_writes(fi, peer: str, payload: str) -> list:
    """
    Everything in fi that changes self.candidates: [(node, kind)] with kind
    'overwrite'  - candidates[peer] becomes the flags of this payload whatever was there ([peer] = v, update({peer: v}), |= {peer: v},
                   __setitem__(peer, v)),
    'keep-first' - the entry is written only when there is none yet (setdefault(peer, ..)),
    'other'      - any other change (not judged here).
    """
    out = []

    def table(e) -> bool:
        return e is not None and _achain(fi, e) == "self.candidates"

    def entry(k, v) -> bool:
        return k is not None and _achain(fi, k) == peer and _is_advertised_flags(fi, v, payload)

    def literal_entry(d) -> bool:
        d = resolve(fi, d) if d is not None else None
        if isinstance(d, ast.Dict):
            return any(entry(k, v) for k, v in zip(d.keys, d.values))
        if isinstance(d, (ast.List, ast.Tuple)):
            return any(isinstance(x, (ast.Tuple, ast.List)) and len(x.elts) == 2 and entry(x.elts[0], x.elts[1]) for x in d.elts)
        return False

    for n in walk_no_nested(fi.node):
        if isinstance(n, (ast.Assign, ast.AnnAssign)) and getattr(n, "value", None) is not None:
            for t in (n.targets if isinstance(n, ast.Assign) else [n.target]):
                if isinstance(t, ast.Subscript) and table(t.value):
                    out.append((n, "overwrite" if entry(t.slice, n.value) else "other"))
                elif isinstance(t, ast.Attribute) and table(t):
                    out.append((n, "other"))
                elif isinstance(t, (ast.Tuple, ast.List)) and any(isinstance(x, ast.Subscript) and table(x.value) for x in ast.walk(t)):
                    out.append((n, "other"))
        elif isinstance(n, ast.AugAssign) and table(n.target):
            out.append((n, "overwrite" if isinstance(n.op, ast.BitOr) and literal_entry(n.value) else "other"))
        elif isinstance(n, ast.Delete) and any(isinstance(x, ast.Subscript) and table(x.value) for t in n.targets for x in ast.walk(t)):
            out.append((n, "other"))
        elif isinstance(n, ast.Call) and isinstance(n.func, ast.Attribute) and table(n.func.value):
            name = n.func.attr
            if name == "__setitem__" and len(n.args) == 2 and not n.keywords:
                out.append((n, "overwrite" if entry(n.args[0], n.args[1]) else "other"))
            elif name == "update" and len(n.args) == 1 and not n.keywords:
                out.append((n, "overwrite" if literal_entry(n.args[0]) else "other"))
            elif name == "setdefault" and n.args and _achain(fi, n.args[0]) == peer:
                out.append((n, "keep-first"))
            elif name in _MUTATORS | {"popitem", "setdefault"}:
                out.append((n, "other"))
    return out


def rule_candidate_flags(ctx: Ctx) -> None:
    """
    The flags a hop carries are read from TunnelCommunity.candidates when the hop is created, Circuit.exit_flags reports them and
    TunnelEndpoint.send's find_circuits(exit_flags=[PEER_FLAG_EXIT_IPV8]) trusts them: the table must hold what the peer advertised
    LAST. Both introduction callbacks therefore overwrite candidates[peer] with extract_peer_flags(payload.extra_bytes) on every
    completing path; a keep-first write (setdefault, insert only when absent) lets flags a peer has withdrawn stick.
    """
    repo = ctx.repo
    tc = repo.try_cls("TunnelCommunity", COMM)
    ctx.anchor(tc, "TunnelCommunity")
    n = 0
    undecided = None
    for name in ("introduction_request_callback", "introduction_response_callback"):
        fi = tc.methods.get(name)
        if fi is None:
            raise AnalysisError(f"anchor-lost: TunnelCommunity.{name}")
        ps = fi.params()
        if len(ps) < 4:
            raise AnalysisError(f"anchor-lost: parameters of TunnelCommunity.{name}")
        peer, payload = ps[1], ps[3]
        cfg = ctx.cfg(fi)
        writes = _candidate_writes(fi, peer, payload)
        if not writes:
            # a thin delegation to the other callback with the very same arguments is judged through that callback
            twin = "introduction_response_callback" if name == "introduction_request_callback" else "introduction_request_callback"
            body = [st for st in fi.node.body if not (isinstance(st, ast.Expr) and isinstance(st.value, ast.Constant))]
            c = body[0].value if len(body) == 1 and isinstance(body[0], (ast.Expr, ast.Return)) and isinstance(body[0].value, ast.Call) else None
            tfi = tc.methods.get(twin)
            if c is not None and tfi is not None and chain(c.func) == f"self.{twin}" and not c.keywords and len(c.args) == 3 \
                    and [_achain(fi, x) for x in c.args] == ps[1:4] and len(tfi.params()) >= 4 \
                    and _candidate_writes(tfi, tfi.params()[1], tfi.params()[3]) and not any(twin in sc.methods for sc in tc.all_subclasses()):
                n += 1
                ctx.instance("candidate-flags", fi.where, f"delegates to {twin} with the same peer / payload")
                continue
        over = [w for w, k in writes if k == "overwrite"]
        first = [w for w, k in writes if k == "keep-first"]
        other = [w for w, k in writes if k == "other"]
        rebound = [d for p_ in (peer, payload) for d in local_defs(fi, p_)]
        # the entry of this peer is removed first (pop(peer, ..) / del [peer]) on every path to a setdefault(peer, <flags of this payload>):
        # together they are an overwrite
        drops = [w for w in other if (isinstance(w, ast.Call) and w.func.attr == "pop" and w.args and _achain(fi, w.args[0]) == peer)
                 or (isinstance(w, ast.Delete) and len(w.targets) == 1 and isinstance(w.targets[0], ast.Subscript)
                     and _achain(fi, w.targets[0].slice) == peer)]
        if drops:
            drop_nodes = [x for w in drops for x in cfg.nodes_for(w)]
            for w in list(first):
                sites = cfg.nodes_for(w)
                others_between = [x for o in writes if o[0] is not w and o[0] not in drops for x in cfg.nodes_for(o[0])]
                if len(w.args) == 2 and not w.keywords and _is_advertised_flags(fi, w.args[1], payload) and sites \
                        and all(cfg.must_complete(sx, drop_nodes) for sx in sites) and not others_between:
                    first.remove(w)
                    over.append(w)
            if over and not first:
                other = [w for w in other if w not in drops]
        nodes = [x for w in over for x in cfg.nodes_for(w)]
        always = bool(nodes) and cfg.must_complete(cfg.exit, nodes)
        if nodes and not always and not other and not first:
            # the overwrite is skipped only over an edge on which the entry already equals the flags of this payload
            def same_already(u, v, lab) -> bool:
                for f in _edge_facts(fi, u, lab):
                    if f.op != "eq" or not f.pos:
                        continue
                    for x, y in ((f.left, f.right), (f.right, f.left)):
                        x = resolve(fi, x)
                        held = (isinstance(x, ast.Subscript) and _achain(fi, x.value) == "self.candidates" and _achain(fi, x.slice) == peer) \
                            or (isinstance(x, ast.Call) and isinstance(x.func, ast.Attribute) and x.func.attr == "get" and x.args
                                and _achain(fi, x.func.value) == "self.candidates" and _achain(fi, x.args[0]) == peer)
                        if held and _is_advertised_flags(fi, y, payload):
                            return True
                return False
            always = cfg.exit not in cfg.reach(cut_out_normal=nodes, cut_edge=same_already)
        # an overwrite that runs only when there is no entry yet is a keep-first write as well
        absent_only = []
        for w in over:
            fs = _expand(fi, facts_at(cfg, w))
            if any(f.op == "in" and not f.pos and _achain(fi, f.left) == peer and _achain(fi, f.right) == "self.candidates" for f in fs):
                absent_only.append(w)
        n += 1
        if always and not other and not rebound and not absent_only:
            ctx.check(True, "candidate-flags", fi, over[0], "candidates[peer] overwritten with the flags of this payload on every completing path")
            continue
        foreign = [c for c in calls(fi) if call_name(c) not in ("extract_peer_flags", "setdefault", "get") and not (chain(c.func) or "").startswith(_LOG_PREFIX)
                   and call_name(c) not in _PURE]
        keep_first_only = (first or absent_only) and not other and not rebound and not [w for w in over if w not in absent_only]
        nothing = not writes and not foreign and not rebound
        if keep_first_only or nothing:
            site = (first + absent_only)[0] if keep_first_only else fi.node
            ctx.check(False, "candidate-flags", fi, site, "candidates[peer] overwritten with the flags of this payload",
                      f"TunnelCommunity.{name} does not overwrite candidates[peer] with the flags the peer advertises now: flags it has withdrawn "
                      "(PEER_FLAG_EXIT_IPV8) stay on the hops built from the table, Circuit.exit_flags keeps reporting them and "
                      "TunnelEndpoint.send's find_circuits(exit_flags=[PEER_FLAG_EXIT_IPV8]) tunnels anonymized packets to an exit that is not IPv8-capable")
            continue
        undecided = undecided or AnalysisError(f"undecided: how TunnelCommunity.{name} records the advertised flags in self.candidates is not recognised")
    ctx.floor("candidate-flags", n, 2)
    if undecided is not None:
        raise undecided


def run(ctx: Ctx) -> None:
    # "analysis does not apply" (exit 2) in one rule must not hide a violation that another rule can still report
    pending = None
    for rule in (rule_send, rule_queue, rule_who, rule_opt_in, rule_exit_flags, rule_circuit_filter, rule_candidate_flags):
        try:
            rule(ctx)
        except AnalysisError as e:
            pending = pending or e
    if pending is not None and not ctx.findings:
        raise pending
    ctx.assume("the flags recorded on a hop are the ones the candidates table held when the hop was chosen (C08 covers hop selection; "
               "candidate-flags: the table holds what the peer advertised last)")
    ctx.assume("REST isolation endpoint calls to set_anonymity are operator actions, not overlay traffic")


WITNESSES = [
    {"name": "first advertised flags stick (setdefault)", "file": COMM, "rule": "candidate-flags",
     "old": "        self.candidates[peer] = self.extract_peer_flags(payload.extra_bytes)\n\n    def introduction_response_callback",
     "new": "        self.candidates.setdefault(peer, self.extract_peer_flags(payload.extra_bytes))\n\n    def introduction_response_callback"},
    {"name": "flags recorded only for unknown peers", "file": COMM, "rule": "candidate-flags",
     "old": "        self.candidates[peer] = self.extract_peer_flags(payload.extra_bytes)\n\n    def create_introduction_request",
     "new": "        if peer not in self.candidates:\n            self.candidates[peer] = self.extract_peer_flags(payload.extra_bytes)\n\n    def create_introduction_request"},
    {"name": "switch default True", "file": EP, "rule": "send-classification",
     "old": "if not self.settings.get(prefix, False):", "new": "if not self.settings.get(prefix, True):"},
    {"name": "raw fallback when no tunnel community", "file": EP, "rule": "send-classification",
     "old": "            while self.send_queue:\n                address, packet = self.send_queue.popleft()\n                tunnel_community.send_data(circuit.hop.address, circuit_id, address, (\"0.0.0.0\", 0), packet)\n",
     "new": "            while self.send_queue:\n                address, packet = self.send_queue.popleft()\n                tunnel_community.send_data(circuit.hop.address, circuit_id, address, (\"0.0.0.0\", 0), packet)\n        else:\n            self.endpoint.send(address, packet)\n"},
    {"name": "send over circuit that is not ready", "file": EP, "rule": "send-classification",
     "old": "if not circuit or circuit.state != CIRCUIT_STATE_READY:", "new": "if not circuit:"},
    {"name": "any exit flags accepted", "file": EP, "rule": "send-classification",
     "old": "circuits = tunnel_community.find_circuits(exit_flags=[PEER_FLAG_EXIT_IPV8], hops=self.hops, state=None)",
     "new": "circuits = tunnel_community.find_circuits(exit_flags=None, hops=self.hops, state=None)"},
    {"name": "hop count ignored", "file": EP, "rule": "send-classification",
     "old": "circuits = tunnel_community.find_circuits(exit_flags=[PEER_FLAG_EXIT_IPV8], hops=self.hops, state=None)",
     "new": "circuits = tunnel_community.find_circuits(exit_flags=[PEER_FLAG_EXIT_IPV8], state=None)"},
    {"name": "prefix taken from 2 bytes", "file": EP, "rule": "send-classification",
     "old": "        prefix = packet[:22]\n        if not self.settings.get", "new": "        prefix = packet[:2]\n        if not self.settings.get"},
    {"name": "raw send decided by membership only", "file": EP, "rule": "send-classification",
     "old": "if not self.settings.get(prefix, False):", "new": "if prefix in self.settings:"},
    {"name": "raw send when the prefix is registered", "file": EP, "rule": "send-classification",
     "old": "if not self.settings.get(prefix, False):", "new": "if prefix in self.settings or not self.settings.get(prefix, False):"},
    {"name": "circuit swapped after the ready test", "file": EP, "rule": "send-classification",
     "old": "            circuit_id = circuit.circuit_id\n",
     "new": "            circuit = tunnel_community.find_circuits(exit_flags=[PEER_FLAG_EXIT_IPV8], hops=self.hops, state=None)[-1]\n            circuit_id = circuit.circuit_id\n"},
    {"name": "packet rebound before the switch", "file": EP, "rule": "send-classification",
     "old": "        prefix = packet[:22]\n        if not self.settings.get",
     "new": "        prefix = packet[:22]\n        packet = packet[1:]\n        if not self.settings.get"},
    {"name": "unbounded queue", "file": EP, "rule": "bounded-queue",
     "old": "deque(maxlen=100)", "new": "deque()"},
    {"name": "second raw sender in TunnelEndpoint", "file": EP, "rule": "raw-send",
     "old": "    def set_anonymity(self, prefix: bytes, enable: bool) -> None:",
     "new": "    def flush(self) -> None:\n        while self.send_queue:\n            self.endpoint.send(*self.send_queue.popleft())\n\n    def set_anonymity(self, prefix: bytes, enable: bool) -> None:"},
    {"name": "private raw helper called before the switch", "file": EP, "rule": "send-classification",
     "edits": [
         {"file": EP, "old": "    def set_anonymity(self, prefix: bytes, enable: bool) -> None:",
          "new": "    def _passthrough(self, address: Address, packet: bytes) -> None:\n        def _noop() -> None:\n            return None\n        self.endpoint.send(address, packet)\n\n    def set_anonymity(self, prefix: bytes, enable: bool) -> None:"},
         {"file": EP, "old": "        prefix = packet[:22]\n        if not self.settings.get",
          "new": "        prefix = packet[:22]\n        self._passthrough(address, packet)\n        if not self.settings.get"}]},
    {"name": "community reaches under the wrapper", "file": "ipv8/community.py", "rule": "raw-send",
     "old": "        packet = self.create_introduction_request(address, new_style=self.network.is_new_style(address))\n        self.endpoint.send(address, packet)",
     "new": "        packet = self.create_introduction_request(address, new_style=self.network.is_new_style(address))\n        getattr(self.endpoint, \"endpoint\", self.endpoint).send(address, packet) if False else self.endpoint.endpoint.send(address, packet)"},
    {"name": "opt-in with wrong flag", "file": "ipv8/community.py", "rule": "opt-in",
     "old": "self.endpoint.set_anonymity(self._prefix, True)", "new": "self.endpoint.set_anonymity(self._prefix, False)"},
    {"name": "opt-in only when a tunnel community is already attached", "file": "ipv8/community.py", "rule": "opt-in",
     "old": "            if isinstance(self.endpoint, TunnelEndpoint):\n                self.endpoint.set_anonymity(self._prefix, True)",
     "new": "            if isinstance(self.endpoint, TunnelEndpoint) and self.endpoint.tunnel_community is not None:\n                self.endpoint.set_anonymity(self._prefix, True)"},
    {"name": "send wrapped by a decorator that also sends raw", "file": EP, "rule": "send-classification",
     "edits": [
         {"file": EP, "old": "class TunnelEndpoint(Endpoint):",
          "new": "def _also_plain(send):\n    def wrapper(self, address, packet):\n        self.endpoint.send(address, packet)\n        send(self, address, packet)\n    return wrapper\n\n\nclass TunnelEndpoint(Endpoint):"},
         {"file": EP, "old": "    def send(self, address: Address, packet: bytes) -> None:",
          "new": "    @_also_plain\n    def send(self, address: Address, packet: bytes) -> None:"}]},
    {"name": "set_anonymity ignores enable", "file": EP, "rule": "opt-in",
     "old": "        self.settings[prefix] = enable", "new": "        self.settings[prefix] = enable and bool(self.tunnel_community)"},
    {"name": "set_anonymity records only while a tunnel community is attached", "file": EP, "rule": "opt-in",
     "old": "        self.settings[prefix] = enable", "new": "        if self.tunnel_community is not None:\n            self.settings[prefix] = enable"},
    {"name": "delivery filter inverted for plain overlays", "file": EP, "rule": "delivery-filter",
     "old": "            if getattr(listener, \"anonymize\", False) != from_tunnel:\n                continue\n",
     "new": "            if getattr(listener, \"anonymize\", False) and not from_tunnel:\n                continue\n"},
    {"name": "puncture leaves through the unwrapped endpoint", "file": "ipv8/community.py", "rule": "raw-send",
     "old": "                                      new_style)\n        self.endpoint.send(target, packet)",
     "new": "                                      new_style)\n        getattr(self.endpoint, \"endpoint\", self.endpoint).send(target, packet)"},
    {"name": "circuits with unknown exit flags match any request", "file": "ipv8/messaging/anonymization/community.py", "rule": "circuit-filter",
     "old": "and (exit_flags is None or set(exit_flags) <= set(c.exit_flags))",
     "new": "and (exit_flags is None or not c.exit_flags or set(exit_flags) <= set(c.exit_flags))"},
    {"name": "longer circuits match the requested hop count", "file": "ipv8/messaging/anonymization/community.py", "rule": "circuit-filter",
     "old": "and (hops is None or hops == c.goal_hops)]", "new": "and (hops is None or hops <= c.goal_hops)]"},
    {"name": "exit flags of the first hop", "file": TUNNEL, "rule": "exit-flags",
     "old": "            return self.hops[-1].flags or []", "new": "            return self.hops[0].flags or []"},
]
