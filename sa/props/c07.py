"""C07 - Anonymized overlays never send from the node's own address."""
from __future__ import annotations

import ast

from ..core import Ctx
from ..match import (Fact, _atoms_with_polarity, arg, call_name, calls, expr_context_facts, fact_of, facts_at, is_param,
                     local_defs, resolve, single_def, stores)
from ..model import AnalysisError, ancestors, chain, const_value, enclosing_stmt, strip_cast, walk_no_nested

LEVEL = "other"
EXPLANATION = (
    "TunnelEndpoint.send depends on history only through its branch conditions, so classifying every effect site by "
    "the branch edges that every path to it must take decides all histories: the raw socket send is reachable only "
    "over an edge on which the anonymity switch of packet[:22] is off (settings.get(prefix, False) falsy, prefix not "
    "in settings, settings[prefix] falsy); tunnel sends only with the switch on and over a circuit that was drawn from "
    "find_circuits(exit_flags=[PEER_FLAG_EXIT_IPV8], hops=self.hops) and tested READY after its last definition; "
    "otherwise queue (bounded deque) or drop. All acyclic paths are enumerated and classified. Closed caller sets: raw "
    "endpoint.send inside TunnelEndpoint, no `.endpoint.endpoint` reach-under, set_anonymity writers, opt-in in "
    "Community.__init__, delivery filter; Circuit.exit_flags reads the flags of the last hop."
)

EP = "ipv8/messaging/anonymization/endpoint.py"
TUNNEL = "ipv8/messaging/anonymization/tunnel.py"

ON, OFF = "on", "off"

# calls that neither send nor store anything
_PURE = {"bool", "len", "isinstance", "next", "iter", "list", "tuple", "set", "getattr", "hasattr", "cast", "reversed", "sorted",
         "self.settings.get"}
_LOG_PREFIX = ("self.logger.", "self._logger.", "logger.", "logging.")
_MUTATORS = {"append", "extend", "insert", "remove", "pop", "clear", "sort", "reverse", "add", "discard", "update", "__setitem__",
             "__delitem__"}


# ------------------------------------------------------------------------------------ small semantic helpers
def _achain(fi, e, depth: int = 6) -> str | None:
    """dotted chain of a Name/Attribute expression after following single-assignment locals that alias a Name/Attribute chain"""
    if e is None:
        return None
    e = strip_cast(e)
    if isinstance(e, ast.Name):
        d = single_def(fi, e.id)
        if depth > 0 and d is not None and d[1] is None and isinstance(strip_cast(d[0]), (ast.Name, ast.Attribute)):
            return _achain(fi, d[0], depth - 1)
        return e.id
    if isinstance(e, ast.Attribute):
        b = _achain(fi, e.value, depth)
        return None if b is None else b + "." + e.attr
    return None


def _unbool(e):
    """bool(x) has the truth value of x"""
    e = strip_cast(e)
    while isinstance(e, ast.Call) and isinstance(e.func, ast.Name) and e.func.id == "bool" and len(e.args) == 1 and not e.keywords:
        e = strip_cast(e.args[0])
    return e


def _is_none(e) -> bool:
    return isinstance(e, ast.Constant) and e.value is None


def _falsy_default(e) -> bool:
    return isinstance(e, ast.Constant) and (e.value is None or e.value is False or (type(e.value) is int and e.value == 0))


def _mutated(fi, name: str) -> bool:
    """is the local `name` changed in place (method call / item store / augmented assignment)"""
    for n in walk_no_nested(fi.node):
        if isinstance(n, ast.Call) and isinstance(n.func, ast.Attribute) and isinstance(n.func.value, ast.Name) \
                and n.func.value.id == name and n.func.attr in _MUTATORS:
            return True
        if isinstance(n, ast.Subscript) and isinstance(n.ctx, (ast.Store, ast.Del)) and isinstance(n.value, ast.Name) and n.value.id == name:
            return True
        if isinstance(n, ast.AugAssign) and isinstance(n.target, ast.Name) and n.target.id == name:
            return True
    return False


def _all_of(vals):
    s = set(vals) - {None}
    return s.pop() if len(s) == 1 else None


def _expand(fi, facts: list[Fact], depth: int = 3) -> list[Fact]:
    """facts plus what they imply when a tested local is a single-assignment boolean expression (`ok = a and b; if ok:`)"""
    out = []
    for f in facts:
        out.append(f)
        if f.op != "truthy" or depth <= 0:
            continue
        x = _unbool(f.left)
        if isinstance(x, ast.Name):
            d = single_def(fi, x.id)
            v = _unbool(d[0]) if d is not None and d[1] is None else None
            if isinstance(v, (ast.BoolOp, ast.UnaryOp, ast.Compare)):
                out.extend(_expand(fi, _atoms_with_polarity(v, f.pos), depth - 1))
        elif x is not f.left:
            out.extend(_expand(fi, _atoms_with_polarity(x, f.pos), depth - 1))
    return out


def _edge_facts(fi, u, lab) -> list[Fact]:
    if u.kind != "cond" or not (lab is True or lab is False):
        return []
    return _expand(fi, _atoms_with_polarity(u.ast, lab))


def _nodes(cfg, site):
    return [n for n in cfg.nodes_for(site) if cfg.reachable(n)]


class _Switch:
    """
    Recognises reads of the anonymity switch of *this* packet: self.settings.get(K[, falsy default]) / self.settings[K] /
    K in self.settings with K = packet[:22], through local aliases, bool(), negation and and/or combinations.
    """

    def __init__(self, fi, packet: str) -> None:
        self.fi = fi
        self.packet = packet
        self.alias_stmts: list[ast.stmt] = []   # definitions of the locals through which the switch is read

    def _follow(self, e):
        e = strip_cast(e)
        sts = []
        n = 0
        while isinstance(e, ast.Name) and n < 4:
            d = single_def(self.fi, e.id)
            if d is None or d[1] is not None:
                break
            sts.append(local_defs(self.fi, e.id)[0][0])
            e = strip_cast(d[0])
            n += 1
        return e, sts

    def _commit(self, sts) -> None:
        for st in sts:
            if st not in self.alias_stmts:
                self.alias_stmts.append(st)

    def is_key(self, e) -> bool:
        k, sts = self._follow(e)
        if not (isinstance(k, ast.Subscript) and isinstance(k.slice, ast.Slice)):
            return False
        s = k.slice
        ok = _achain(self.fi, k.value) == self.packet and (s.lower is None or const_value(s.lower) == 0) \
            and s.upper is not None and const_value(s.upper) == 22 and (s.step is None or const_value(s.step) == 1)
        if ok:
            self._commit(sts)
        return ok

    def is_table(self, e) -> bool:
        return _achain(self.fi, e) == "self.settings"

    def read(self, e) -> bool:
        e = _unbool(e)
        if isinstance(e, ast.Name):
            r, sts = self._follow(e)
            if r is not e and not isinstance(r, ast.Name) and self.read(r):
                self._commit(sts)
                return True
            return False
        if isinstance(e, ast.Call) and isinstance(e.func, ast.Attribute) and e.func.attr == "get" and self.is_table(e.func.value) \
                and not e.keywords and 1 <= len(e.args) <= 2 and not any(isinstance(a, ast.Starred) for a in e.args):
            return self.is_key(e.args[0]) and (len(e.args) == 1 or _falsy_default(e.args[1]))
        if isinstance(e, ast.Subscript) and isinstance(e.ctx, ast.Load) and self.is_table(e.value):
            return self.is_key(e.slice)
        return False

    def fact_val(self, f: Fact, depth: int = 3):
        """ON / OFF when the fact decides the switch, None otherwise"""
        if f.op == "truthy":
            x = _unbool(f.left)
            if self.read(x):
                return ON if f.pos else OFF
            if isinstance(x, ast.Name) and depth > 0:
                r, sts = self._follow(x)
                if isinstance(r, (ast.BoolOp, ast.UnaryOp, ast.Compare)):
                    v = self.implies(r, f.pos, depth - 1)
                    if v is not None:
                        self._commit(sts)
                    return v
            return None
        if f.op == "in":
            if not f.pos and self.is_key(f.left) and self.is_table(f.right):
                return OFF          # no entry: get(..., falsy) is falsy
            return None
        if f.op in ("is", "eq") and f.pos:
            for a, b in ((f.left, f.right), (f.right, f.left)):
                if isinstance(b, ast.Constant) and isinstance(b.value, bool) and self.read(a):
                    return ON if b.value else OFF
        return None

    def implies(self, e, pol: bool, depth: int = 3):
        """value of the switch implied by `e` being truthy (pol) / falsy (not pol), short-circuit order respected"""
        e = _unbool(e)
        if isinstance(e, ast.UnaryOp) and isinstance(e.op, ast.Not):
            return self.implies(e.operand, not pol, depth)
        if isinstance(e, ast.BoolOp):
            if isinstance(e.op, ast.And) == pol:      # `and` known true / `or` known false: every operand has that value
                return _all_of([self.implies(v, pol, depth) for v in e.values])
            alts = []
            for i, v in enumerate(e.values):          # operand i decided it: all earlier ones had the other value
                alts.append(_all_of([self.implies(w, not pol, depth) for w in e.values[:i]] + [self.implies(v, pol, depth)]))
            return alts[0] if alts and all(a == alts[0] for a in alts) else None
        return self.fact_val(fact_of(e, pol), depth)

    def edge(self, u, lab):
        if u.kind != "cond" or not (lab is True or lab is False):
            return None
        return self.implies(u.ast, lab)

    def dominated(self, cfg, site, want: str) -> bool:
        """every path entry -> site takes an edge on which the switch is `want` (or the expression context says so)"""
        if any(self.fact_val(f) == want for f in expr_context_facts(site)):
            return True
        ns = _nodes(cfg, site)
        return all(cfg.must_pass_edges(n, lambda u, v, lab: self.edge(u, lab) == want) for n in ns)


class _Source:
    """Is a circuit variable drawn (only) from find_circuits(exit_flags ⊇ [PEER_FLAG_EXIT_IPV8], hops=self.hops) of the tunnel overlay?"""

    SIG = ["ctype", "state", "exit_flags", "hops"]

    def __init__(self, fi) -> None:
        self.fi = fi
        self.finds = 0

    def pick(self, e, depth: int = 6) -> bool:
        e = strip_cast(e)
        if depth <= 0:
            return False
        if _is_none(e):
            return True
        if isinstance(e, ast.IfExp):
            return self.pick(e.body, depth - 1) and self.pick(e.orelse, depth - 1)
        if isinstance(e, ast.Subscript) and not isinstance(e.slice, ast.Slice) and isinstance(const_value(e.slice), int):
            return self.lst(e.value, depth - 1)
        if isinstance(e, ast.Call) and chain(e.func) == "next" and not e.keywords and 1 <= len(e.args) <= 2 \
                and (len(e.args) == 1 or _is_none(e.args[1])):
            it = strip_cast(e.args[0])
            if isinstance(it, ast.Call) and chain(it.func) == "iter" and len(it.args) == 1:
                return self.lst(it.args[0], depth - 1)
            return False
        if isinstance(e, ast.Name):
            return self.name_pick(e.id, depth - 1)
        return False

    def name_pick(self, name: str, depth: int) -> bool:
        if is_param(self.fi, name):
            return False
        defs = local_defs(self.fi, name)
        if not defs:
            return False
        for st, v, idx in defs:
            if idx is not None:
                return False
            if v is None:
                if isinstance(st, ast.For) and isinstance(st.target, ast.Name) and st.target.id == name and self.lst(st.iter, depth):
                    continue
                return False
            if not self.pick(v, depth):
                return False
        return True

    def lst(self, e, depth: int) -> bool:
        e = strip_cast(e)
        if depth <= 0:
            return False
        if isinstance(e, (ast.List, ast.Tuple)) and not e.elts:
            return True
        if isinstance(e, ast.BoolOp):
            return all(self.lst(v, depth - 1) for v in e.values)
        if isinstance(e, ast.IfExp):
            return self.lst(e.body, depth - 1) and self.lst(e.orelse, depth - 1)
        if isinstance(e, ast.Subscript) and isinstance(e.slice, ast.Slice):
            return self.lst(e.value, depth - 1)
        if isinstance(e, ast.Call):
            if call_name(e) == "find_circuits" and isinstance(e.func, ast.Attribute):
                return self.find_ok(e)
            if chain(e.func) in ("list", "tuple", "sorted", "reversed") and e.args:
                return self.lst(e.args[0], depth - 1)
            return False
        if isinstance(e, ast.Name):
            if is_param(self.fi, e.id) or _mutated(self.fi, e.id):
                return False
            defs = local_defs(self.fi, e.id)
            return bool(defs) and all(idx is None and v is not None and self.lst(v, depth - 1) for _, v, idx in defs)
        return False

    def find_ok(self, fc: ast.Call) -> bool:
        fi = self.fi
        if any(isinstance(a, ast.Starred) for a in fc.args) or any(k.arg is None for k in fc.keywords):
            return False

        def a(name):
            return arg(fc, self.SIG.index(name), name)
        ef = a("exit_flags")
        if isinstance(strip_cast(ef), ast.Name) if ef is not None else False:
            if _mutated(fi, strip_cast(ef).id):
                return False
            ef = resolve(fi, ef)
        ef_ok = isinstance(ef, (ast.List, ast.Tuple, ast.Set)) and any(_achain(fi, x) == "PEER_FLAG_EXIT_IPV8" for x in ef.elts)
        hp_ok = _achain(fi, a("hops")) == "self.hops"
        ct = a("ctype")
        ct_ok = ct is None or _achain(fi, ct) == "CIRCUIT_TYPE_DATA"
        recv_ok = _achain(fi, fc.func.value) == "self.tunnel_community"
        ok = bool(ef_ok and hp_ok and ct_ok and recv_ok)
        if ok:
            self.finds += 1
        return ok


def _queue_nonempty_fact(fi, f: Fact) -> bool:
    """does the fact say that self.send_queue is not empty"""
    def is_q(e):
        return _achain(fi, e) == "self.send_queue"

    def is_len(e):
        e = strip_cast(e)
        return isinstance(e, ast.Call) and chain(e.func) == "len" and len(e.args) == 1 and not e.keywords and is_q(e.args[0])
    if f.op == "truthy":
        return f.pos and (is_q(_unbool(f.left)) or is_len(_unbool(f.left)))
    if f.op == "lt":
        return (f.pos and const_value(f.left) == 0 and is_len(f.right)) or (not f.pos and is_len(f.left) and const_value(f.right) == 1)
    if f.op == "eq":
        return not f.pos and ((is_len(f.left) and const_value(f.right) == 0) or (is_len(f.right) and const_value(f.left) == 0))
    return False


def _raw_helpers(repo, te) -> dict:
    """
    Private TunnelEndpoint methods (other than send) that hand two of their own, never rebound, parameters to the raw socket
    and are called from TunnelEndpoint.send only: name -> (FuncInfo, (index of the address param, index of the packet param)).
    Their call sites in send are judged exactly like a raw send there.
    """
    out = {}
    for name, hf in te.methods.items():
        if name == "send" or not name.startswith("_") or name.startswith("__"):
            continue
        rc = calls(hf, "self.endpoint.send")
        if not rc:
            continue
        callers = [f for _, f, _ in repo.callers_of_name(name)]
        if not callers or any(f is None or f.qualname != "TunnelEndpoint.send" for f in callers):
            continue
        ps = hf.params()
        idx = set()
        for c in rc:
            a0, a1 = _achain(hf, arg(c, 0, "socket_address")), _achain(hf, arg(c, 1, "packet"))
            if a0 in ps and a1 in ps and not local_defs(hf, a0) and not local_defs(hf, a1):
                idx.add((ps.index(a0), ps.index(a1)))
            else:
                idx.add(None)
        if len(idx) == 1 and None not in idx:
            out[name] = (hf, idx.pop())
    return out


def _helper_arg(hf, call: ast.Call, pindex: int):
    """expression bound to parameter #pindex (0 = self) of method hf at `self.hf(...)`"""
    return arg(call, pindex - 1, hf.params()[pindex])


def _effects(te, hf, seen: frozenset) -> set:
    """kinds of send / queue / table effects a TunnelEndpoint method can have (transitively through self.<method> calls)"""
    out = set()
    for c in calls(hf):
        ch = _achain(hf, c.func) or chain(c.func) or ""
        nm = call_name(c)
        if ch == "self.endpoint.send":
            out.add("RAW")
        elif nm == "send_data":
            out.add("TUNNEL")
        elif nm in ("find_circuits", "create_circuit"):
            out.add("CIRCUIT")
        elif ch in _PURE or ch.startswith(_LOG_PREFIX):
            continue
        elif ch.startswith("self.send_queue."):
            out.add("QUEUE")
        elif ch.startswith("self.settings."):
            out.add("TABLE")
        elif ch.startswith("self.") and ch.count(".") == 1 and nm in te.methods:
            if nm not in seen:
                out |= _effects(te, te.methods[nm], seen | {nm})
        else:
            out.add("OTHER " + ch)
    if stores(hf, lambda c_: c_.startswith("self.")):
        out.add("STORE")
    return out


# ------------------------------------------------------------------------------------ rules
def rule_send(ctx: Ctx) -> None:  # noqa: C901, PLR0912, PLR0915
    repo = ctx.repo
    te = repo.cls("TunnelEndpoint", EP)
    fi = repo.method("TunnelEndpoint", "send", EP)
    cfg = ctx.cfg(fi)
    params = fi.params()
    addr, packet = params[1], params[2]
    sw = _Switch(fi, packet)
    helpers = _raw_helpers(repo, te)

    def eff_chain(c: ast.Call) -> str:
        return _achain(fi, c.func) or chain(c.func) or ""

    def helper_of(c: ast.Call):
        ch = chain(c.func) or ""
        return helpers.get(ch[5:]) if ch.startswith("self.") and ch.count(".") == 1 else None

    # ---- RAW sites: self.endpoint.send(...) and calls of raw-sending private helpers
    raw_sites = []          # (call, address expr, packet expr)
    for c in calls(fi):
        if eff_chain(c) == "self.endpoint.send":
            raw_sites.append((c, arg(c, 0, "socket_address"), arg(c, 1, "packet")))
        elif helper_of(c) is not None:
            hf, (ia, ip) = helper_of(c)
            raw_sites.append((c, _helper_arg(hf, c, ia), _helper_arg(hf, c, ip)))
    ctx.anchor(raw_sites, "raw send in TunnelEndpoint.send")
    for c, a_expr, p_expr in raw_sites:
        facts = facts_at(cfg, c)
        ok = sw.dominated(cfg, c, OFF)
        ok_pkt = _achain(fi, p_expr) == packet and _achain(fi, a_expr) == addr
        ctx.check(ok and ok_pkt, "send-classification", fi, c,
                  "RAW: endpoint.send only under falsy settings.get(packet[:22], False) for that very packet",
                  "a packet of an anonymized overlay can be handed to the raw socket", [str(f) for f in facts])
    # the packet that was classified is the packet that is sent: no rebinding of packet / address (or of the locals the switch is
    # read through) can reach the switch test or the raw send
    sensitive = set()
    for c, _, _ in raw_sites:
        sensitive.update(cfg.nodes_for(c))
    for n in cfg.nodes:
        if n.kind == "cond" and any(sw.edge(n, lab) is not None for lab in (True, False)):
            sensitive.add(n)
    for st in sw.alias_stmts:
        sensitive.update(cfg.nodes_for(st))
    rebinds = [d[0] for p in (packet, addr) for d in local_defs(fi, p)]
    for c, _, _ in raw_sites:
        bad = None
        for st in rebinds:
            starts = [v for n in cfg.nodes_for(st) for v, lab in n.succ if lab != "exc"]
            if starts and sensitive & cfg.reach(starts):
                bad = st
        ctx.check(bad is None, "send-classification", fi, c, "packet not rebound before the raw-send decision",
                  "the packet is rebound before the anonymity switch is evaluated")

    # ---- TUNNEL sites
    tun = ctx.anchor([c for c in calls(fi) if call_name(c) == "send_data"], "send_data in TunnelEndpoint.send")
    for c in tun:
        facts = _expand(fi, facts_at(cfg, c))
        sw_on = sw.dominated(cfg, c, ON)
        target = _achain(fi, arg(c, 0, "target")) or ""
        parts = target.split(".")
        cname = parts[0] if len(parts) == 3 and parts[1:] == ["hop", "address"] and parts[0] != "self" else None
        ok_addr = cname is not None

        def is_ready(f: Fact, cname=cname) -> bool:
            return f.op == "eq" and f.pos and {_achain(fi, f.left), _achain(fi, f.right)} == {f"{cname}.state", "CIRCUIT_STATE_READY"}
        ready = ok_addr and any(is_ready(f) for f in facts)
        nonnull = ok_addr and any((f.op == "truthy" and f.pos and _achain(fi, _unbool(f.left)) == cname)
                                  or (f.op == "is" and not f.pos and ((_is_none(f.right) and _achain(fi, f.left) == cname)
                                                                      or (_is_none(f.left) and _achain(fi, f.right) == cname)))
                                  for f in facts)
        ok_cid = ok_addr and _achain(fi, arg(c, 1, "circuit_id")) == f"{cname}.circuit_id"
        # the circuit comes from find_circuits(EXIT_IPV8, hops=self.hops) and is tested READY after its last (re)definition
        src_ok = fresh = False
        if ok_addr:
            src = _Source(fi)
            src_ok = src.name_pick(cname, 6) and src.finds > 0
            fresh = True
            for st, _, _ in local_defs(fi, cname):
                starts = [v for n in cfg.nodes_for(st) for v, lab in n.succ if lab != "exc"]
                r = cfg.reach(starts, cut_edge=lambda u, v, lab: any(is_ready(f) for f in _edge_facts(fi, u, lab)))
                if any(n in r for n in cfg.nodes_for(c)):
                    fresh = False
        dest = resolve(fi, arg(c, 2, "dest_address"))
        origin = resolve(fi, arg(c, 3, "source_address"))
        ok_args = origin is not None and const_value(origin) == ("0.0.0.0", 0) and dest is not None \
            and (isinstance(dest, ast.Name) or (isinstance(dest, ast.Subscript) and isinstance(dest.value, ast.Name)))
        recv_ok = isinstance(c.func, ast.Attribute) and _achain(fi, c.func.value) == "self.tunnel_community"
        ctx.check(sw_on and ready and fresh and nonnull and ok_addr and ok_cid and src_ok and ok_args and recv_ok,
                  "send-classification", fi, c,
                  "TUNNEL: send_data only over a READY circuit from find_circuits(exit_flags=[EXIT_IPV8], hops=self.hops)",
                  f"tunnel send is not restricted to a ready IPv8-exit circuit of the configured length "
                  f"(switch={sw_on} ready={ready and fresh} nonnull={nonnull} first_hop={ok_addr} circuit_id={ok_cid} source={src_ok} "
                  f"args={ok_args} receiver={recv_ok})",
                  [str(f) for f in facts])
    # drain: items are taken from the queue only while it is not empty (the test may be the loop condition or a guard in the loop)
    for c in calls(fi):
        if eff_chain(c) not in ("self.send_queue.popleft", "self.send_queue.pop"):
            continue
        loop = next((a for a in ancestors(enclosing_stmt(c)) if isinstance(a, ast.While)), None)
        facts = facts_at(cfg, c)
        ctx.check(any(_queue_nonempty_fact(fi, f) for f in _expand(fi, facts)), "send-classification", fi, loop if loop is not None else c,
                  "queue drain loops while self.send_queue", "drain loop condition is not the send queue", [str(f) for f in facts])

    # ---- every call in send is RAW / TUNNEL / QUEUE / circuit management / free of effects
    allowed = {"self.endpoint.send", "self.send_queue.append", "self.send_queue.popleft", "self.send_queue.pop"}
    undecided = []
    for c in calls(fi):
        ch = eff_chain(c)
        ok = ch in allowed or ch in _PURE or ch.startswith(_LOG_PREFIX) or call_name(c) in ("send_data", "find_circuits", "create_circuit") \
            or helper_of(c) is not None
        if not ok and ch.startswith("self.") and ch.count(".") == 1 and call_name(c) in te.methods and call_name(c) != "send":
            eff = _effects(te, te.methods[call_name(c)], frozenset({call_name(c)}))
            if not eff:
                ok = True       # a helper that neither sends, queues nor stores
            elif not any(e.startswith("OTHER") or e == "RAW" for e in eff):
                undecided.append(f"undecided: TunnelEndpoint.send routes through helper `{ch}` ({', '.join(sorted(eff))}) that could not be inlined")
                continue
        ctx.check(ok, "send-classification", fi, c, f"effect `{ch}` is RAW/TUNNEL/QUEUE/circuit management",
                  f"TunnelEndpoint.send has an unclassified effect `{ch}`")

    # ---- path enumeration: classify the effects of every path
    paths = cfg.paths()
    kinds = {}
    for p in paths:
        eff = []
        sw_val = None
        for node, lab in p:
            v = sw.edge(node, lab)
            if v is not None:
                sw_val = v == ON
            if node.ast is not None and node.kind in ("stmt", "cond"):
                for c in [x for x in ast.walk(node.ast) if isinstance(x, ast.Call)]:
                    ch = eff_chain(c)
                    if ch == "self.endpoint.send" or helper_of(c) is not None:
                        eff.append("RAW")
                    elif call_name(c) == "send_data":
                        eff.append("TUNNEL")
                    elif ch == "self.send_queue.append":
                        eff.append("QUEUE")
        if p[-1][0] is cfg.raise_exit:
            continue
        cls = "+".join(sorted(set(eff))) or "DROP"
        kinds[(sw_val, cls)] = kinds.get((sw_val, cls), 0) + 1
        ok = not (sw_val is True and "RAW" in eff) and not (sw_val is False and ("TUNNEL" in eff or "QUEUE" in eff)) and sw_val is not None
        ctx.instance("send-classification.paths", fi.where, f"path anonymity={sw_val} effects={cls}", ok=ok)
        if not ok:
            ctx.violation("send-classification.paths", fi, fi.node,
                          f"a path of TunnelEndpoint.send with anonymity switch={sw_val} has effects {cls}")
    ctx.extra["send_paths"] = {f"anonymize={k[0]} effect={k[1]}": v for k, v in sorted(kinds.items(), key=str)}
    ctx.floor("send-classification.paths", len(paths), 5)
    if undecided:
        raise AnalysisError(undecided[0])


def rule_queue(ctx: Ctx) -> None:
    repo = ctx.repo
    te = repo.cls("TunnelEndpoint", EP)
    writes = []
    for fi in te.methods.values():
        for st, t in stores(fi, "self.send_queue"):
            writes.append((fi, st))
    ctx.anchor(writes, "send_queue assignment")
    for fi, st in writes:
        v = strip_cast(st.value) if getattr(st, "value", None) is not None else None
        if isinstance(v, ast.Name):
            v = resolve(fi, v)
        ok = fi.name == "__init__" and isinstance(v, ast.Call) and (chain(v.func) or "").split(".")[-1] == "deque"
        ml = arg(v, 1, "maxlen") if ok else None
        mlv = repo.resolve_const(fi.module, ml, fi.cls) if ml is not None else None
        ok = ok and isinstance(mlv, int) and not isinstance(mlv, bool) and mlv > 0
        ctx.check(ok, "bounded-queue", fi, st, "send_queue = deque(maxlen=<positive constant>) assigned once in __init__",
                  "the queue of packets waiting for a circuit is unbounded or rebound")
    ctx.check(len([1 for fi, _ in writes if fi.name == "__init__"]) <= 1, "bounded-queue", te.where, "send_queue",
              "send_queue assigned once", "the queue of packets waiting for a circuit is rebound")
    for m, fi, a in repo.attribute_uses("send_queue"):
        ctx.check(fi is not None and fi.cls is te, "bounded-queue", fi or m.relpath, a, "send_queue used only inside TunnelEndpoint",
                  "send_queue is accessed from outside TunnelEndpoint")


def rule_who(ctx: Ctx) -> None:
    repo = ctx.repo
    te = repo.cls("TunnelEndpoint", EP)
    helpers = _raw_helpers(repo, te)
    n = 0
    for fi in [f for f in repo.all_functions() if f.cls is te]:
        for c in calls(fi):
            if (_achain(fi, c.func) or chain(c.func)) != "self.endpoint.send":
                continue
            n += 1
            # a private helper called from send only is judged at its call sites in send (send-classification)
            ok = fi.qualname == "TunnelEndpoint.send" or (fi.qualname == f"TunnelEndpoint.{fi.name}" and fi.name in helpers)
            ctx.check(ok, "raw-send", fi, c, "raw endpoint.send only in TunnelEndpoint.send",
                      "the wrapped endpoint's send is called outside the anonymity switch")
        # handing out the raw endpoint's bound send method
        for a in walk_no_nested(fi.node):
            if isinstance(a, ast.Attribute) and chain(a) == "self.endpoint.send" and not isinstance(getattr(a, "_parent", None), ast.Call):
                ctx.check(False, "raw-send", fi, a, "no escaping reference to the raw send", "raw send method escapes")
    ctx.floor("raw-send", n, 1)
    # nobody reaches under the wrapper
    for m in repo.modules.values():
        for node in ast.walk(m.tree):
            if isinstance(node, ast.Attribute) and node.attr == "endpoint" and isinstance(node.value, ast.Attribute) \
                    and node.value.attr == "endpoint":
                fi = repo.function_of(node)
                ok = fi is not None and fi.cls is te
                ctx.check(ok, "raw-send", fi or m.relpath, node, "no `.endpoint.endpoint` outside TunnelEndpoint",
                          "code reaches under the TunnelEndpoint wrapper to the raw endpoint")
    # __getattr__ style forwarding would also leak the raw send
    ctx.check("__getattr__" not in te.methods and "__getattribute__" not in te.methods, "raw-send", te.where, "__getattr__",
              "TunnelEndpoint has no attribute forwarding", "TunnelEndpoint forwards unknown attributes to the raw endpoint")


def _is_true(e) -> bool:
    return isinstance(e, ast.Constant) and e.value is True


def _is_false(e) -> bool:
    return isinstance(e, ast.Constant) and e.value is False


def _delivery_filter(ctx: Ctx, nl) -> None:
    """
    Path-sensitive: on every path to _deliver_later(listener, ...) the tests taken since the listener was bound say that
    getattr(listener, "anonymize", False) equals from_tunnel (one equality test, or both truth values known and equal).
    """
    cfgn = ctx.cfg(nl)
    from_tunnel = nl.params()[2]
    dl = ctx.anchor([c for c in calls(nl) if call_name(c) == "_deliver_later"], "_deliver_later in TunnelEndpoint.notify_listeners")

    def is_anon(e, listener) -> bool:
        e = _unbool(resolve(nl, e))
        return isinstance(e, ast.Call) and chain(e.func) == "getattr" and len(e.args) == 3 and not e.keywords \
            and const_value(e.args[1]) == "anonymize" and _falsy_default(e.args[2]) and _achain(nl, e.args[0]) == listener

    def is_ft(e) -> bool:
        return _achain(nl, _unbool(e)) == from_tunnel

    def state_of(fs: list[Fact], listener):
        """(equality known, anonymize value, from_tunnel value) from a list of facts; None when the facts contradict each other"""
        eqs, avs, tvs = set(), set(), set()
        for f in fs:
            if f.op in ("eq", "is") and ((is_anon(f.left, listener) and is_ft(f.right)) or (is_anon(f.right, listener) and is_ft(f.left))):
                eqs.add(f.pos)
            elif f.op == "truthy" and is_anon(f.left, listener):
                avs.add(f.pos)
            elif f.op == "truthy" and is_ft(f.left):
                tvs.add(f.pos)
            elif f.op in ("eq", "is") and f.pos:
                for x, y in ((f.left, f.right), (f.right, f.left)):
                    if isinstance(y, ast.Constant) and isinstance(y.value, bool):
                        if is_anon(x, listener):
                            avs.add(y.value)
                        elif is_ft(x):
                            tvs.add(y.value)
        if len(eqs) > 1 or len(avs) > 1 or len(tvs) > 1:
            return None         # the same (side-effect free) test taken both ways: not an execution
        return (next(iter(eqs), None), next(iter(avs), None), next(iter(tvs), None))

    def allowed(st) -> bool:
        eq, a, t = st
        if eq is False or (a is not None and t is not None and a != t):
            return False
        return eq is True or (a is not None and a == t)

    paths = cfgn.paths()
    for c in dl:
        lexpr = arg(c, 0, "listener")
        listener = _achain(nl, lexpr)
        sites = set(cfgn.nodes_for(c))
        facts = facts_at(cfgn, c)
        st = state_of(_expand(nl, facts), listener)
        ok = st is not None and allowed(st)
        if not ok and listener is not None:
            # the listeners were filtered when the iterated list was built: [l for l in ... if getattr(l, "anonymize", False) == from_tunnel]
            d = [x for x in local_defs(nl, listener)]
            if len(d) == 1 and isinstance(d[0][0], ast.For) and isinstance(d[0][0].target, ast.Name):
                it0 = strip_cast(d[0][0].iter)
                it = resolve(nl, it0)
                if isinstance(it0, ast.Name) and _mutated(nl, it0.id):
                    it = None
                if isinstance(it, (ast.ListComp, ast.GeneratorExp, ast.SetComp)) and len(it.generators) == 1 \
                        and isinstance(it.generators[0].target, ast.Name) and isinstance(it.elt, ast.Name) \
                        and it.elt.id == it.generators[0].target.id and not it.generators[0].is_async:
                    fs = [f for cond in it.generators[0].ifs for f in _atoms_with_polarity(cond, True)]
                    st = state_of(fs, it.elt.id)
                    ok = st is not None and allowed(st)
        if not ok:
            # no single dominating test: look at the tests taken on each path since the listener was (re)bound
            seen_site = False
            ok = True
            for p in paths:
                cur: list[Fact] = []
                for node, lab in p:
                    if node.kind == "loop":
                        cur = []
                    if node in sites:
                        st = state_of(cur, listener)
                        if st is None:
                            break
                        seen_site = True
                        if not allowed(st):
                            ok = False
                    cur = cur + _edge_facts(nl, node, lab)
            ok = ok and seen_site
        ctx.check(ok, "delivery-filter", nl, c, "listener receives the packet only if listener.anonymize == from_tunnel",
                  "tunnel-delivered packets reach plain overlays or socket packets reach anonymized overlays",
                  [str(f) for f in facts])


def _table_put(fi, c: ast.Call):
    """(key, value) when the call is self.settings.update({k: v}) / self.settings.__setitem__(k, v), else None"""
    if not (isinstance(c.func, ast.Attribute) and _achain(fi, c.func.value) == "self.settings") or c.keywords:
        return None
    if c.func.attr == "__setitem__" and len(c.args) == 2:
        return c.args[0], c.args[1]
    if c.func.attr == "update" and len(c.args) == 1:
        d = resolve(fi, c.args[0])
        if isinstance(d, ast.Dict) and len(d.keys) == 1 and d.keys[0] is not None:
            return d.keys[0], d.values[0]
    return None


def rule_opt_in(ctx: Ctx) -> None:  # noqa: C901, PLR0912
    repo = ctx.repo
    init = repo.method("Community", "__init__", "ipv8/community.py")
    cfg = ctx.cfg(init)
    sa_calls = ctx.anchor([c for c in calls(init) if call_name(c) == "set_anonymity" and isinstance(c.func, ast.Attribute)
                           and _achain(init, c.func.value) == "self.endpoint"], "set_anonymity in Community.__init__")
    for c in sa_calls:
        facts = _expand(init, facts_at(cfg, c))
        a0, a1 = arg(c, 0, "prefix"), arg(c, 1, "enable")
        ok = _achain(init, a0) == "self._prefix" and _is_true(resolve(init, a1)) \
            and any(f.op == "truthy" and f.pos and _achain(init, _unbool(f.left)) in ("settings.anonymize", "self.anonymize") for f in facts)
        ctx.check(ok, "opt-in", init, c, "Community opts in with set_anonymity(self._prefix, True) under settings.anonymize",
                  "an overlay that asked for anonymity is not registered with the tunnel endpoint for its own prefix")
    # every path with settings.anonymize and a TunnelEndpoint reaches the call
    ctx.check(any(f for f in sa_calls), "opt-in", init, init.node, "opt-in call present")
    # all set_anonymity(.., False) sites
    n = 0
    for m, fi, c in repo.callers_of_name("set_anonymity"):
        n += 1
        a0, a1 = arg(c, 0, "prefix"), arg(c, 1, "enable")
        if fi is not None and fi.qualname == "Community.__init__" and c in sa_calls:
            continue
        if fi is not None and fi.module.relpath.startswith("ipv8/REST/"):
            # REST isolation endpoint is an operator action, listed as assumption
            continue
        ok = fi is not None and fi.qualname == "TunnelCommunity.__init__" and _achain(fi, a0) == "self._prefix" \
            and _is_false(resolve(fi, a1))
        ctx.check(ok, "opt-in", fi or m.relpath, c, "only the tunnel overlay disables anonymity, for its own prefix",
                  "anonymity is switched off for a prefix other than the tunnel overlay's own")
    ctx.floor("opt-in", n, 1)
    # the anonymity table of an endpoint is never written from outside the TunnelEndpoint (e.g. `self.endpoint.settings = {...}`)
    for m in repo.modules.values():
        for node in ast.walk(m.tree):
            if isinstance(node, ast.Attribute) and node.attr == "settings" and isinstance(node.value, ast.Attribute) and node.value.attr == "endpoint":
                p_ = getattr(node, "_parent", None)
                write = isinstance(node.ctx, (ast.Store, ast.Del)) or (isinstance(p_, ast.Subscript) and isinstance(p_.ctx, (ast.Store, ast.Del))) or \
                    (isinstance(p_, ast.Attribute) and p_.attr in ("pop", "clear", "update", "setdefault", "popitem") and isinstance(getattr(p_, "_parent", None), ast.Call))
                if write:
                    f2 = repo.function_of(node)
                    ctx.check(False, "opt-in", f2 or m.relpath, enclosing_stmt(node), "endpoint.settings is only written by set_anonymity",
                              "the anonymity table of the tunnel endpoint is overwritten from outside set_anonymity: anonymity requests registered earlier are lost and those overlays send raw")
    # settings dict written only by set_anonymity
    te = repo.cls("TunnelEndpoint", EP)
    for fi in te.methods.values():
        for st, t in stores(fi, ["self.settings[]", "self.settings"]):
            ok = fi.name in ("set_anonymity", "__init__")
            ctx.check(ok, "opt-in", fi, st, "anonymity table written only by set_anonymity", "anonymity table rewritten elsewhere")
        for c in calls(fi):
            ch = chain(c.func) or ""
            if ch.startswith("self.settings.") and call_name(c) in ("pop", "clear", "update", "setdefault", "popitem", "__setitem__", "__delitem__"):
                if fi.name == "set_anonymity" and _table_put(fi, c) is not None:
                    continue        # judged below: the one recording store of set_anonymity
                ctx.check(False, "opt-in", fi, c, "no other mutation of the anonymity table", "anonymity table mutated outside set_anonymity")
    # set_anonymity records the requested value under the prefix on every path, and does nothing else to the table
    sa = te.methods["set_anonymity"]
    ps = sa.params()
    cfgs = ctx.cfg(sa)
    good = []
    others = 0
    fixed = not local_defs(sa, ps[1]) and not local_defs(sa, ps[2])
    for st, t in stores(sa, ["self.settings[]", "self.settings"]):
        v = getattr(st, "value", None)
        if isinstance(st, (ast.Assign, ast.AnnAssign)) and isinstance(t, ast.Subscript) and _achain(sa, t.value) == "self.settings" \
                and _achain(sa, t.slice) == ps[1] and _achain(sa, v) == ps[2] and fixed:
            good.append(st)
        else:
            others += 1
    for c in calls(sa):
        kv = _table_put(sa, c)
        if kv is not None:
            if _achain(sa, kv[0]) == ps[1] and _achain(sa, kv[1]) == ps[2] and fixed:
                good.append(enclosing_stmt(c))
            else:
                others += 1
    nodes = [n for st in good for n in cfgs.nodes_for(st)]
    # no normal completion that skips the store: cutting the store's normal out-edges must disconnect the exit
    ok = bool(good) and others == 0 and cfgs.exit not in cfgs.reach(cut_out_normal=nodes)
    ctx.check(ok, "opt-in", sa, sa.node, "set_anonymity stores enable under the prefix", "set_anonymity does not record the requested switch")
    # delivery filter
    _delivery_filter(ctx, te.methods["notify_listeners"])


def rule_exit_flags(ctx: Ctx) -> None:
    """
    find_circuits(exit_flags=[PEER_FLAG_EXIT_IPV8]) compares the requested flags with Circuit.exit_flags.  The traffic leaves the
    circuit at its LAST hop, so "ending in an IPv8-capable exit" holds only if Circuit.exit_flags reads the flags of the last
    element of the hop list; the flags of the first hop (`self.hop`) or of any other position describe a relay.
    """
    repo = ctx.repo
    fi = repo.method("Circuit", "exit_flags", TUNNEL)
    reads = [a for a in walk_no_nested(fi.node) if isinstance(a, ast.Attribute) and a.attr == "flags" and isinstance(a.ctx, ast.Load)]
    ctx.anchor(reads, "read of <hop>.flags in Circuit.exit_flags")
    hop_lists = ("self.hops", "self._hops")

    def last_of(e) -> bool | None:
        """True: last hop; False: recognisably another hop; None: unknown shape"""
        e = resolve(fi, e)
        if isinstance(e, (ast.IfExp, ast.BoolOp)):
            # `hops[-1] if hops else None`, `hops and hops[-1]`: every alternative that is a hop must be the last one
            alts = [e.body, e.orelse] if isinstance(e, ast.IfExp) else list(e.values)
            vals = [last_of(x) for x in alts if not _is_none(x) and _achain(fi, x) not in hop_lists]
            if not vals or any(v is None for v in vals):
                return None
            return all(vals)
        if isinstance(e, ast.Subscript) and not isinstance(e.slice, ast.Slice) and _achain(fi, e.value) in hop_lists:
            i = e.slice
            if const_value(i) == -1:
                return True
            if isinstance(const_value(i), int):
                return False
            # hops[len(hops) - 1]
            if isinstance(i, ast.BinOp) and isinstance(i.op, ast.Sub) and const_value(i.right) == 1 and isinstance(i.left, ast.Call) \
                    and chain(i.left.func) == "len" and len(i.left.args) == 1 and _achain(fi, i.left.args[0]) in hop_lists:
                return True
            return None
        c = _achain(fi, e)
        if c in ("self.hop", "self.unverified_hop"):
            return False
        return None
    n = 0
    for a in reads:
        v = last_of(a.value)
        if v is None:
            raise AnalysisError(f"undecided: which hop Circuit.exit_flags reads the flags of (`{ast.unparse(a)}`)")
        n += 1
        ctx.check(v, "exit-flags", fi, a, "Circuit.exit_flags reads the flags of the last hop (hops[-1])",
                  "Circuit.exit_flags does not describe the last hop: find_circuits(exit_flags=[PEER_FLAG_EXIT_IPV8]) then selects "
                  "circuits whose exit is not known to be IPv8-capable and TunnelEndpoint.send carries anonymized packets over them")
    # some return hands these flags out
    rets = [s for s in walk_no_nested(fi.node) if isinstance(s, ast.Return) and s.value is not None
            and any(isinstance(x, ast.Attribute) and x.attr == "flags" for x in ast.walk(resolve(fi, s.value)))]
    ctx.check(bool(rets), "exit-flags", fi, fi.node, "Circuit.exit_flags returns the flags it read",
              "Circuit.exit_flags never returns the flags of a hop")
    ctx.floor("exit-flags", n, 1)


def run(ctx: Ctx) -> None:
    # "analysis does not apply" (exit 2) in one rule must not hide a violation that another rule can still report
    pending = None
    for rule in (rule_send, rule_queue, rule_who, rule_opt_in, rule_exit_flags):
        try:
            rule(ctx)
        except AnalysisError as e:
            pending = pending or e
    if pending is not None and not ctx.findings:
        raise pending
    ctx.assume("the flags recorded on a hop are the ones the peer advertised when the hop was chosen (C08 covers hop selection)")
    ctx.assume("REST isolation endpoint calls to set_anonymity are operator actions, not overlay traffic")


WITNESSES = [
    {"name": "switch default True", "file": EP, "rule": "send-classification",
     "old": "if not self.settings.get(prefix, False):", "new": "if not self.settings.get(prefix, True):"},
    {"name": "raw fallback when no tunnel community", "file": EP, "rule": "send-classification",
     "old": "            while self.send_queue:\n                address, packet = self.send_queue.popleft()\n                tunnel_community.send_data(circuit.hop.address, circuit_id, address, (\"0.0.0.0\", 0), packet)\n",
     "new": "            while self.send_queue:\n                address, packet = self.send_queue.popleft()\n                tunnel_community.send_data(circuit.hop.address, circuit_id, address, (\"0.0.0.0\", 0), packet)\n        else:\n            self.endpoint.send(address, packet)\n"},
    {"name": "send over circuit that is not ready", "file": EP, "rule": "send-classification",
     "old": "if not circuit or circuit.state != CIRCUIT_STATE_READY:", "new": "if not circuit:"},
    {"name": "any exit flags accepted", "file": EP, "rule": "send-classification",
     "old": "circuits = tunnel_community.find_circuits(exit_flags=[PEER_FLAG_EXIT_IPV8], hops=self.hops, state=None)",
     "new": "circuits = tunnel_community.find_circuits(exit_flags=None, hops=self.hops, state=None)"},
    {"name": "hop count ignored", "file": EP, "rule": "send-classification",
     "old": "circuits = tunnel_community.find_circuits(exit_flags=[PEER_FLAG_EXIT_IPV8], hops=self.hops, state=None)",
     "new": "circuits = tunnel_community.find_circuits(exit_flags=[PEER_FLAG_EXIT_IPV8], state=None)"},
    {"name": "prefix taken from 2 bytes", "file": EP, "rule": "send-classification",
     "old": "        prefix = packet[:22]\n        if not self.settings.get", "new": "        prefix = packet[:2]\n        if not self.settings.get"},
    {"name": "raw send decided by membership only", "file": EP, "rule": "send-classification",
     "old": "if not self.settings.get(prefix, False):", "new": "if prefix in self.settings:"},
    {"name": "raw send when the prefix is registered", "file": EP, "rule": "send-classification",
     "old": "if not self.settings.get(prefix, False):", "new": "if prefix in self.settings or not self.settings.get(prefix, False):"},
    {"name": "circuit swapped after the ready test", "file": EP, "rule": "send-classification",
     "old": "            circuit_id = circuit.circuit_id\n",
     "new": "            circuit = tunnel_community.find_circuits(exit_flags=[PEER_FLAG_EXIT_IPV8], hops=self.hops, state=None)[-1]\n            circuit_id = circuit.circuit_id\n"},
    {"name": "packet rebound before the switch", "file": EP, "rule": "send-classification",
     "old": "        prefix = packet[:22]\n        if not self.settings.get",
     "new": "        prefix = packet[:22]\n        packet = packet[1:]\n        if not self.settings.get"},
    {"name": "unbounded queue", "file": EP, "rule": "bounded-queue",
     "old": "deque(maxlen=100)", "new": "deque()"},
    {"name": "second raw sender in TunnelEndpoint", "file": EP, "rule": "raw-send",
     "old": "    def set_anonymity(self, prefix: bytes, enable: bool) -> None:",
     "new": "    def flush(self) -> None:\n        while self.send_queue:\n            self.endpoint.send(*self.send_queue.popleft())\n\n    def set_anonymity(self, prefix: bytes, enable: bool) -> None:"},
    {"name": "private raw helper called before the switch", "file": EP, "rule": "send-classification",
     "edits": [
         {"file": EP, "old": "    def set_anonymity(self, prefix: bytes, enable: bool) -> None:",
          "new": "    def _passthrough(self, address: Address, packet: bytes) -> None:\n        def _noop() -> None:\n            return None\n        self.endpoint.send(address, packet)\n\n    def set_anonymity(self, prefix: bytes, enable: bool) -> None:"},
         {"file": EP, "old": "        prefix = packet[:22]\n        if not self.settings.get",
          "new": "        prefix = packet[:22]\n        self._passthrough(address, packet)\n        if not self.settings.get"}]},
    {"name": "community reaches under the wrapper", "file": "ipv8/community.py", "rule": "raw-send",
     "old": "        packet = self.create_introduction_request(address, new_style=self.network.is_new_style(address))\n        self.endpoint.send(address, packet)",
     "new": "        packet = self.create_introduction_request(address, new_style=self.network.is_new_style(address))\n        getattr(self.endpoint, \"endpoint\", self.endpoint).send(address, packet) if False else self.endpoint.endpoint.send(address, packet)"},
    {"name": "opt-in with wrong flag", "file": "ipv8/community.py", "rule": "opt-in",
     "old": "self.endpoint.set_anonymity(self._prefix, True)", "new": "self.endpoint.set_anonymity(self._prefix, False)"},
    {"name": "set_anonymity ignores enable", "file": EP, "rule": "opt-in",
     "old": "        self.settings[prefix] = enable", "new": "        self.settings[prefix] = enable and bool(self.tunnel_community)"},
    {"name": "set_anonymity records only while a tunnel community is attached", "file": EP, "rule": "opt-in",
     "old": "        self.settings[prefix] = enable", "new": "        if self.tunnel_community is not None:\n            self.settings[prefix] = enable"},
    {"name": "delivery filter inverted for plain overlays", "file": EP, "rule": "delivery-filter",
     "old": "            if getattr(listener, \"anonymize\", False) != from_tunnel:\n                continue\n",
     "new": "            if getattr(listener, \"anonymize\", False) and not from_tunnel:\n                continue\n"},
    {"name": "exit flags of the first hop", "file": TUNNEL, "rule": "exit-flags",
     "old": "            return self.hops[-1].flags or []", "new": "            return self.hops[0].flags or []"},
]
