"""C07 - Anonymized overlays never send from the node's own address."""
from __future__ import annotations

import ast

from ..core import Ctx
from ..match import arg, call_name, calls, facts_at, local_defs, resolve, single_def, stores
from ..model import AnalysisError, chain, const_value, enclosing_stmt, norm, strip_cast, walk_no_nested

LEVEL = "other"
EXPLANATION = (
    "TunnelEndpoint.send depends on history only through its branch conditions, so classifying every effect site by "
    "the facts that dominate it decides all histories: the raw socket send is reachable only under a falsy "
    "settings.get(packet[:22], False); tunnel sends only under a READY circuit drawn from "
    "find_circuits(exit_flags=[PEER_FLAG_EXIT_IPV8], hops=self.hops); otherwise queue (bounded deque) or drop. All "
    "acyclic paths are enumerated and classified. Closed caller sets: raw endpoint.send inside TunnelEndpoint, no "
    "`.endpoint.endpoint` reach-under, set_anonymity writers, opt-in in Community.__init__, delivery filter."
)

EP = "ipv8/messaging/anonymization/endpoint.py"


def rule_send(ctx: Ctx) -> None:
    repo = ctx.repo
    fi = repo.method("TunnelEndpoint", "send", EP)
    cfg = ctx.cfg(fi)
    params = fi.params()
    addr, packet = params[1], params[2]

    def is_switch(e) -> bool:
        e = strip_cast(e)
        if not (isinstance(e, ast.Call) and chain(e.func) == "self.settings.get" and len(e.args) == 2):
            return False
        k = resolve(fi, e.args[0])
        d = e.args[1]
        key_ok = isinstance(k, ast.Subscript) and chain(k.value) == packet and isinstance(k.slice, ast.Slice) \
            and k.slice.lower is None and const_value(k.slice.upper) == 22
        return key_ok and isinstance(d, ast.Constant) and d.value is False

    raw = ctx.anchor(calls(fi, "self.endpoint.send"), "raw send in TunnelEndpoint.send")
    for c in raw:
        facts = facts_at(cfg, c)
        ok = any(f.op == "truthy" and not f.pos and is_switch(f.left) for f in facts)
        # the packet classified is the packet sent, before any rebinding of `packet`
        sent = arg(c, 1)
        ok_pkt = chain(sent) == packet and chain(arg(c, 0)) == addr
        ctx.check(ok and ok_pkt, "send-classification", fi, c,
                  "RAW: endpoint.send only under falsy settings.get(packet[:22], False) for that very packet",
                  "a packet of an anonymized overlay can be handed to the raw socket", [str(f) for f in facts])
        # no rebinding of packet/prefix before the switch on this path
        defs_before = [d for d in local_defs(fi, packet) if d[0].lineno < c.lineno]
        ctx.check(not defs_before, "send-classification", fi, c, "packet not rebound before the raw-send decision",
                  "the packet is rebound before the anonymity switch is evaluated")

    tun = ctx.anchor([c for c in calls(fi) if call_name(c) == "send_data"], "send_data in TunnelEndpoint.send")
    for c in tun:
        facts = facts_at(cfg, c)
        sw = any(f.op == "truthy" and f.pos and is_switch(f.left) for f in facts)
        circ_expr = arg(c, 0)
        # circuit variable
        base = circ_expr
        while isinstance(base, ast.Attribute):
            base = base.value
        cname = base.id if isinstance(base, ast.Name) else None
        ready = any(f.op == "eq" and f.pos and {norm(f.left), norm(f.right)} == {f"{cname}.state", "CIRCUIT_STATE_READY"} for f in facts)
        nonnull = any(f.op == "truthy" and f.pos and chain(f.left) == cname for f in facts)
        ok_addr = norm(circ_expr) == f"{cname}.hop.address"
        cid = resolve(fi, arg(c, 1))
        ok_cid = norm(cid) == f"{cname}.circuit_id"
        # where does the circuit come from
        src_ok = False
        d = single_def(fi, cname) if cname else None
        if d is not None:
            v = strip_cast(d[0])
            lst = None
            if isinstance(v, ast.IfExp) and isinstance(v.body, ast.Subscript) and const_value(v.body.slice) == 0 \
                    and isinstance(v.orelse, ast.Constant) and v.orelse.value is None:
                lst = v.body.value
            elif isinstance(v, ast.Subscript) and const_value(v.slice) == 0:
                lst = v.value
            if lst is not None:
                fc = resolve(fi, lst)
                if isinstance(fc, ast.Call) and call_name(fc) == "find_circuits":
                    ef = arg(fc, None, "exit_flags")
                    hp = arg(fc, None, "hops")
                    recv = resolve(fi, fc.func.value)
                    src_ok = (ef is not None and isinstance(ef, (ast.List, ast.Tuple)) and len(ef.elts) == 1
                              and chain(ef.elts[0]) == "PEER_FLAG_EXIT_IPV8"
                              and hp is not None and chain(hp) == "self.hops"
                              and chain(recv) == "self.tunnel_community"
                              and arg(fc, None, "ctype") is None)
        dest = arg(c, 2)
        origin = arg(c, 3)
        ok_args = origin is not None and const_value(origin) == ("0.0.0.0", 0) and isinstance(dest, ast.Name)
        recv_ok = chain(resolve(fi, c.func.value)) == "self.tunnel_community"
        ctx.check(sw and ready and nonnull and ok_addr and ok_cid and src_ok and ok_args and recv_ok, "send-classification", fi, c,
                  "TUNNEL: send_data only over a READY circuit from find_circuits(exit_flags=[EXIT_IPV8], hops=self.hops)",
                  f"tunnel send is not restricted to a ready IPv8-exit circuit of the configured length "
                  f"(switch={sw} ready={ready} nonnull={nonnull} first_hop={ok_addr} circuit_id={ok_cid} source={src_ok} args={ok_args} receiver={recv_ok})",
                  [str(f) for f in facts])
    # drain loop: items come from send_queue.popleft()
    for c in tun:
        st = enclosing_stmt(c)
        loop = next((a for a in _ancestors(st) if isinstance(a, ast.While)), None)
        if loop is not None:
            ctx.check(chain(loop.test) == "self.send_queue", "send-classification", fi, loop,
                      "queue drain loops while self.send_queue", "drain loop condition is not the send queue")

    # every effect call in send is one of RAW / TUNNEL / QUEUE / create_circuit / find_circuits
    allowed = {"self.endpoint.send", "self.settings.get", "self.send_queue.append", "self.send_queue.popleft"}
    for c in calls(fi):
        ch = chain(c.func) or ""
        ok = ch in allowed or call_name(c) in ("send_data", "find_circuits", "create_circuit")
        ctx.check(ok, "send-classification", fi, c, f"effect `{ch}` is RAW/TUNNEL/QUEUE/circuit management",
                  f"TunnelEndpoint.send has an unclassified effect `{ch}`")
    # path enumeration: classify terminal effect of every path
    paths = cfg.paths()
    kinds = {}
    for p in paths:
        eff = []
        sw_val = None
        for node, lab in p:
            if node.kind == "cond" and is_switch(node.ast):
                sw_val = lab
            if node.ast is not None and node.kind == "stmt":
                for c in [x for x in ast.walk(node.ast) if isinstance(x, ast.Call)]:
                    ch = chain(c.func) or ""
                    if ch == "self.endpoint.send":
                        eff.append("RAW")
                    elif call_name(c) == "send_data":
                        eff.append("TUNNEL")
                    elif ch == "self.send_queue.append":
                        eff.append("QUEUE")
        if p[-1][0] is cfg.raise_exit:
            continue
        cls = "+".join(sorted(set(eff))) or "DROP"
        kinds[(sw_val, cls)] = kinds.get((sw_val, cls), 0) + 1
        ok = not (sw_val is True and "RAW" in eff) and not (sw_val is False and ("TUNNEL" in eff or "QUEUE" in eff)) and sw_val is not None
        ctx.instance("send-classification.paths", fi.where, f"path anonymity={sw_val} effects={cls}", ok=ok)
        if not ok:
            ctx.violation("send-classification.paths", fi, fi.node,
                          f"a path of TunnelEndpoint.send with anonymity switch={sw_val} has effects {cls}")
    ctx.extra["send_paths"] = {f"anonymize={k[0]} effect={k[1]}": v for k, v in sorted(kinds.items(), key=str)}
    ctx.floor("send-classification.paths", len(paths), 5)


def _ancestors(n):
    from ..model import ancestors
    return ancestors(n)


def rule_queue(ctx: Ctx) -> None:
    repo = ctx.repo
    te = repo.cls("TunnelEndpoint", EP)
    writes = []
    for fi in te.methods.values():
        for st, t in stores(fi, "self.send_queue"):
            writes.append((fi, st))
    ctx.anchor(writes, "send_queue assignment")
    for fi, st in writes:
        v = strip_cast(st.value) if getattr(st, "value", None) is not None else None
        ok = fi.name == "__init__" and isinstance(v, ast.Call) and chain(v.func) == "deque"
        ml = arg(v, None, "maxlen") if ok else None
        mlv = repo.resolve_const(fi.module, ml, fi.cls) if ml is not None else None
        ok = ok and isinstance(mlv, int) and mlv > 0
        ctx.check(ok, "bounded-queue", fi, st, "send_queue = deque(maxlen=<positive constant>) assigned once in __init__",
                  "the queue of packets waiting for a circuit is unbounded or rebound")
    for m, fi, a in repo.attribute_uses("send_queue"):
        ctx.check(fi is not None and fi.cls is te, "bounded-queue", fi or m.relpath, a, "send_queue used only inside TunnelEndpoint",
                  "send_queue is accessed from outside TunnelEndpoint")


def rule_who(ctx: Ctx) -> None:
    repo = ctx.repo
    te = repo.cls("TunnelEndpoint", EP)
    n = 0
    for fi in [f for f in repo.all_functions() if f.cls is te]:
        for c in calls(fi, "self.endpoint.send"):
            n += 1
            ctx.check(fi.qualname == "TunnelEndpoint.send", "raw-send", fi, c, "raw endpoint.send only in TunnelEndpoint.send",
                      "the wrapped endpoint's send is called outside the anonymity switch")
        # handing out the raw endpoint's bound send method
        for a in walk_no_nested(fi.node):
            if isinstance(a, ast.Attribute) and chain(a) == "self.endpoint.send" and not isinstance(getattr(a, "_parent", None), ast.Call):
                ctx.check(False, "raw-send", fi, a, "no escaping reference to the raw send", "raw send method escapes")
    ctx.floor("raw-send", n, 1)
    # nobody reaches under the wrapper
    for m in repo.modules.values():
        for node in ast.walk(m.tree):
            if isinstance(node, ast.Attribute) and node.attr == "endpoint" and isinstance(node.value, ast.Attribute) \
                    and node.value.attr == "endpoint":
                fi = repo.function_of(node)
                ok = fi is not None and fi.cls is te
                ctx.check(ok, "raw-send", fi or m.relpath, node, "no `.endpoint.endpoint` outside TunnelEndpoint",
                          "code reaches under the TunnelEndpoint wrapper to the raw endpoint")
    # __getattr__ style forwarding would also leak the raw send
    ctx.check("__getattr__" not in te.methods and "__getattribute__" not in te.methods, "raw-send", te.where, "__getattr__",
              "TunnelEndpoint has no attribute forwarding", "TunnelEndpoint forwards unknown attributes to the raw endpoint")


def rule_opt_in(ctx: Ctx) -> None:
    repo = ctx.repo
    init = repo.method("Community", "__init__", "ipv8/community.py")
    cfg = ctx.cfg(init)
    sa_calls = ctx.anchor(calls(init, "self.endpoint.set_anonymity"), "set_anonymity in Community.__init__")
    for c in sa_calls:
        facts = facts_at(cfg, c)
        a0, a1 = arg(c, 0), arg(c, 1)
        ok = chain(a0) == "self._prefix" and isinstance(a1, ast.Constant) and a1.value is True \
            and any(f.op == "truthy" and f.pos and chain(f.left) in ("settings.anonymize", "self.anonymize") for f in facts)
        ctx.check(ok, "opt-in", init, c, "Community opts in with set_anonymity(self._prefix, True) under settings.anonymize",
                  "an overlay that asked for anonymity is not registered with the tunnel endpoint for its own prefix")
    # every path with settings.anonymize and a TunnelEndpoint reaches the call
    ctx.check(any(f for f in sa_calls), "opt-in", init, init.node, "opt-in call present")
    # all set_anonymity(.., False) sites
    n = 0
    for m, fi, c in repo.callers_of_name("set_anonymity"):
        n += 1
        a0, a1 = arg(c, 0), arg(c, 1)
        if fi is not None and fi.qualname == "Community.__init__":
            continue
        if fi is not None and fi.module.relpath.startswith("ipv8/REST/"):
            # REST isolation endpoint is an operator action, listed as assumption
            continue
        ok = fi is not None and fi.qualname == "TunnelCommunity.__init__" and chain(a0) == "self._prefix" \
            and isinstance(a1, ast.Constant) and a1.value is False
        ctx.check(ok, "opt-in", fi or m.relpath, c, "only the tunnel overlay disables anonymity, for its own prefix",
                  "anonymity is switched off for a prefix other than the tunnel overlay's own")
    ctx.floor("opt-in", n, 1)
    # the anonymity table of an endpoint is never written from outside the TunnelEndpoint (e.g. `self.endpoint.settings = {...}`)
    for m in repo.modules.values():
        for node in ast.walk(m.tree):
            if isinstance(node, ast.Attribute) and node.attr == "settings" and isinstance(node.value, ast.Attribute) and node.value.attr == "endpoint":
                p_ = getattr(node, "_parent", None)
                write = isinstance(node.ctx, (ast.Store, ast.Del)) or (isinstance(p_, ast.Subscript) and isinstance(p_.ctx, (ast.Store, ast.Del))) or \
                    (isinstance(p_, ast.Attribute) and p_.attr in ("pop", "clear", "update", "setdefault", "popitem") and isinstance(getattr(p_, "_parent", None), ast.Call))
                if write:
                    f2 = repo.function_of(node)
                    ctx.check(False, "opt-in", f2 or m.relpath, enclosing_stmt(node), "endpoint.settings is only written by set_anonymity",
                              "the anonymity table of the tunnel endpoint is overwritten from outside set_anonymity: anonymity requests registered earlier are lost and those overlays send raw")
    # settings dict written only by set_anonymity
    te = repo.cls("TunnelEndpoint", EP)
    for fi in te.methods.values():
        for st, t in stores(fi, ["self.settings[]", "self.settings"]):
            ok = fi.name in ("set_anonymity", "__init__")
            ctx.check(ok, "opt-in", fi, st, "anonymity table written only by set_anonymity", "anonymity table rewritten elsewhere")
        for c in calls(fi):
            ch = chain(c.func) or ""
            if ch.startswith("self.settings.") and call_name(c) in ("pop", "clear", "update", "setdefault", "popitem"):
                ctx.check(False, "opt-in", fi, c, "no other mutation of the anonymity table", "anonymity table mutated outside set_anonymity")
    sa = te.methods["set_anonymity"]
    ps = sa.params()
    body = [s for s in sa.node.body if not (isinstance(s, ast.Expr) and isinstance(s.value, ast.Constant))]
    ok = len(body) == 1 and isinstance(body[0], ast.Assign) and norm(body[0].targets[0]) == f"self.settings[{ps[1]}]" \
        and norm(body[0].value) == ps[2]
    ctx.check(ok, "opt-in", sa, sa.node, "set_anonymity stores enable under the prefix", "set_anonymity does not record the requested switch")
    # delivery filter
    nl = te.methods["notify_listeners"]
    cfgn = ctx.cfg(nl)
    dl = ctx.anchor([c for c in calls(nl) if call_name(c) == "_deliver_later"], "_deliver_later in TunnelEndpoint.notify_listeners")
    for c in dl:
        facts = facts_at(cfgn, c)
        ok = False
        for f in facts:
            if f.op == "eq" and f.pos:
                sides = [f.left, f.right]
                g = [s for s in sides if isinstance(s, ast.Call) and chain(s.func) == "getattr" and len(s.args) == 3
                     and const_value(s.args[1]) == "anonymize" and const_value(s.args[2]) is False
                     and chain(s.args[0]) == chain(arg(c, 0))]
                o = [s for s in sides if chain(s) == nl.params()[2]]
                if g and o:
                    ok = True
        ctx.check(ok, "delivery-filter", nl, c, "listener receives the packet only if listener.anonymize == from_tunnel",
                  "tunnel-delivered packets reach plain overlays or socket packets reach anonymized overlays",
                  [str(f) for f in facts])


def run(ctx: Ctx) -> None:
    rule_send(ctx)
    rule_queue(ctx)
    rule_who(ctx)
    rule_opt_in(ctx)
    ctx.assume("exit_flags recorded on a circuit describe its last hop (set when the circuit is created; C08 covers hop selection)")
    ctx.assume("REST isolation endpoint calls to set_anonymity are operator actions, not overlay traffic")


WITNESSES = [
    {"name": "switch default True", "file": EP, "rule": "send-classification",
     "old": "if not self.settings.get(prefix, False):", "new": "if not self.settings.get(prefix, True):"},
    {"name": "raw fallback when no tunnel community", "file": EP, "rule": "send-classification",
     "old": "            while self.send_queue:\n                address, packet = self.send_queue.popleft()\n                tunnel_community.send_data(circuit.hop.address, circuit_id, address, (\"0.0.0.0\", 0), packet)\n",
     "new": "            while self.send_queue:\n                address, packet = self.send_queue.popleft()\n                tunnel_community.send_data(circuit.hop.address, circuit_id, address, (\"0.0.0.0\", 0), packet)\n        else:\n            self.endpoint.send(address, packet)\n"},
    {"name": "send over circuit that is not ready", "file": EP, "rule": "send-classification",
     "old": "if not circuit or circuit.state != CIRCUIT_STATE_READY:", "new": "if not circuit:"},
    {"name": "any exit flags accepted", "file": EP, "rule": "send-classification",
     "old": "circuits = tunnel_community.find_circuits(exit_flags=[PEER_FLAG_EXIT_IPV8], hops=self.hops, state=None)",
     "new": "circuits = tunnel_community.find_circuits(exit_flags=None, hops=self.hops, state=None)"},
    {"name": "hop count ignored", "file": EP, "rule": "send-classification",
     "old": "circuits = tunnel_community.find_circuits(exit_flags=[PEER_FLAG_EXIT_IPV8], hops=self.hops, state=None)",
     "new": "circuits = tunnel_community.find_circuits(exit_flags=[PEER_FLAG_EXIT_IPV8], state=None)"},
    {"name": "prefix taken from 2 bytes", "file": EP, "rule": "send-classification",
     "old": "        prefix = packet[:22]\n        if not self.settings.get", "new": "        prefix = packet[:2]\n        if not self.settings.get"},
    {"name": "unbounded queue", "file": EP, "rule": "bounded-queue",
     "old": "deque(maxlen=100)", "new": "deque()"},
    {"name": "second raw sender in TunnelEndpoint", "file": EP, "rule": "raw-send",
     "old": "    def set_anonymity(self, prefix: bytes, enable: bool) -> None:",
     "new": "    def flush(self) -> None:\n        while self.send_queue:\n            self.endpoint.send(*self.send_queue.popleft())\n\n    def set_anonymity(self, prefix: bytes, enable: bool) -> None:"},
    {"name": "community reaches under the wrapper", "file": "ipv8/community.py", "rule": "raw-send",
     "old": "        packet = self.create_introduction_request(address, new_style=self.network.is_new_style(address))\n        self.endpoint.send(address, packet)",
     "new": "        packet = self.create_introduction_request(address, new_style=self.network.is_new_style(address))\n        getattr(self.endpoint, \"endpoint\", self.endpoint).send(address, packet) if False else self.endpoint.endpoint.send(address, packet)"},
    {"name": "opt-in with wrong flag", "file": "ipv8/community.py", "rule": "opt-in",
     "old": "self.endpoint.set_anonymity(self._prefix, True)", "new": "self.endpoint.set_anonymity(self._prefix, False)"},
    {"name": "set_anonymity ignores enable", "file": EP, "rule": "opt-in",
     "old": "        self.settings[prefix] = enable", "new": "        self.settings[prefix] = enable and bool(self.tunnel_community)"},
    {"name": "delivery filter inverted for plain overlays", "file": EP, "rule": "delivery-filter",
     "old": "            if getattr(listener, \"anonymize\", False) != from_tunnel:\n                continue\n",
     "new": "            if getattr(listener, \"anonymize\", False) and not from_tunnel:\n                continue\n"},
]
