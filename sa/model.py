"""
Repository model: parses every non-test module of /repo/ipv8 (+ ipv8_service.py), resolves imports,
class hierarchy (C3 MRO), methods, decorators and simple call targets.  Nothing is imported or run.
"""
from __future__ import annotations

import ast
import os
from dataclasses import dataclass, field


class AnalysisError(Exception):
    """The analysis itself cannot give a verdict (anchor lost, unknown syntax, floor not met): exit 2."""


# --------------------------------------------------------------------------------------- ast helpers

_SINGLETONS = (ast.expr_context, ast.operator, ast.unaryop, ast.boolop, ast.cmpop)


def set_parents(tree: ast.AST) -> None:
    for node in ast.walk(tree):
        for child in ast.iter_child_nodes(node):
            # Load()/Store()/Add()/... are process-wide singletons shared by every parsed tree: they have no parent
            if not isinstance(child, _SINGLETONS):
                child._parent = node  # type: ignore[attr-defined]
    tree._parent = None  # type: ignore[attr-defined]


def clone(node):
    """structural copy of a syntax (sub)tree: fields and positions only - never follows the _parent/_info links that
    copy.deepcopy would follow out of the subtree into the whole repository model"""
    if isinstance(node, list):
        return [clone(x) for x in node]
    if not isinstance(node, ast.AST):
        return node
    if isinstance(node, _SINGLETONS):
        return node
    new = type(node)()
    for f in node._fields:
        if hasattr(node, f):
            setattr(new, f, clone(getattr(node, f)))
    for a in node._attributes:
        if hasattr(node, a):
            setattr(new, a, getattr(node, a))
    return new


def parent(node: ast.AST):
    return getattr(node, "_parent", None)


def ancestors(node: ast.AST):
    node = parent(node)
    while node is not None:
        yield node
        node = parent(node)


def enclosing_function(node: ast.AST):
    for a in ancestors(node):
        if isinstance(a, (ast.FunctionDef, ast.AsyncFunctionDef)):
            return a
    return None


def enclosing_stmt(node: ast.AST) -> ast.stmt:
    while node is not None and not isinstance(node, ast.stmt):
        node = parent(node)
    return node


def chain(expr: ast.AST) -> str | None:
    """
    Render an attribute / call / subscript chain as a dotted fingerprint:
    ``self.request_cache.pop(...)`` -> ``self.request_cache.pop()``; ``a.b[k].c`` -> ``a.b[].c``.
    ``cast("X", e)`` is transparent.  Returns None for anything else.
    """
    if isinstance(expr, ast.Name):
        return expr.id
    if isinstance(expr, ast.Attribute):
        base = chain(expr.value)
        return None if base is None else base + "." + expr.attr
    if isinstance(expr, ast.Call):
        if isinstance(expr.func, ast.Name) and expr.func.id == "cast" and len(expr.args) == 2:
            return chain(expr.args[1])
        base = chain(expr.func)
        return None if base is None else base + "()"
    if isinstance(expr, ast.Subscript):
        base = chain(expr.value)
        return None if base is None else base + "[]"
    if isinstance(expr, ast.Await):
        return chain(expr.value)
    return None


def strip_cast(expr: ast.AST) -> ast.AST:
    while (isinstance(expr, ast.Call) and isinstance(expr.func, ast.Name) and expr.func.id == "cast"
           and len(expr.args) == 2):
        expr = expr.args[1]
    return expr


def callee_chain(call: ast.Call) -> str | None:
    return chain(call.func)


def walk_no_nested(node: ast.AST, *, include_root_defs: bool = True):
    """ast.walk that does not descend into nested function / class / lambda bodies."""
    stack = [node]
    first = True
    while stack:
        n = stack.pop()
        yield n
        for c in ast.iter_child_nodes(n):
            if isinstance(c, (ast.FunctionDef, ast.AsyncFunctionDef, ast.ClassDef, ast.Lambda)) and not (first and False):
                # nested definition: yield the def node itself (for decorators) but not its body
                yield c
                continue
            stack.append(c)
        first = False


def calls_in(node: ast.AST, nested: bool = False):
    it = ast.walk(node) if nested else walk_no_nested(node)
    for n in it:
        if isinstance(n, ast.Call):
            yield n


def norm(node: ast.AST) -> str:
    """Normalised source text of a node (formatting-independent), used as finding identity."""
    if node is None:
        return "<none>"
    try:
        return " ".join(ast.unparse(node).split())
    except Exception:  # pragma: no cover
        return ast.dump(node)


def head(node: ast.AST) -> str:
    """Normalised text of the header of a compound statement, the whole text otherwise."""
    if isinstance(node, (ast.If, ast.While)):
        return ("if " if isinstance(node, ast.If) else "while ") + norm(node.test)
    if isinstance(node, (ast.For, ast.AsyncFor)):
        return "for " + norm(node.target) + " in " + norm(node.iter)
    if isinstance(node, (ast.With, ast.AsyncWith)):
        return "with " + ", ".join(norm(i) for i in node.items)
    if isinstance(node, ast.Try):
        return "try"
    if isinstance(node, (ast.FunctionDef, ast.AsyncFunctionDef)):
        return "def " + node.name
    return norm(node)


def const_value(expr: ast.AST):
    if isinstance(expr, ast.Constant):
        return expr.value
    if isinstance(expr, ast.UnaryOp) and isinstance(expr.op, ast.USub) and isinstance(expr.operand, ast.Constant):
        return -expr.operand.value
    if isinstance(expr, ast.Tuple):
        vals = [const_value(e) for e in expr.elts]
        if all(v is not _NOCONST for v in vals):
            return tuple(vals)
    return _NOCONST


class _NoConst:
    def __repr__(self) -> str:
        return "<non-constant>"


_NOCONST = _NoConst()
NOCONST = _NOCONST


# --------------------------------------------------------------------------------------- model

@dataclass
class FuncInfo:
    name: str
    qualname: str            # "Class.method", "func", "outer.inner.wrapper"
    node: ast.FunctionDef | ast.AsyncFunctionDef
    module: "Module"
    cls: "ClassInfo | None" = None

    @property
    def where(self) -> str:
        return f"{self.module.relpath}:{self.qualname}"

    @property
    def is_async(self) -> bool:
        return isinstance(self.node, ast.AsyncFunctionDef)

    @property
    def decorators(self) -> list[ast.expr]:
        return list(self.node.decorator_list)

    def decorator_names(self) -> list[str]:
        out = []
        for d in self.node.decorator_list:
            c = chain(d.func) if isinstance(d, ast.Call) else chain(d)
            out.append(c or norm(d))
        return out

    def params(self) -> list[str]:
        a = self.node.args
        return [x.arg for x in a.posonlyargs + a.args] + ([a.vararg.arg] if a.vararg else []) + \
               [x.arg for x in a.kwonlyargs] + ([a.kwarg.arg] if a.kwarg else [])

    def __hash__(self) -> int:
        return id(self.node)

    def __eq__(self, other) -> bool:
        return isinstance(other, FuncInfo) and other.node is self.node


@dataclass
class ClassInfo:
    name: str
    node: ast.ClassDef
    module: "Module"
    methods: dict[str, FuncInfo] = field(default_factory=dict)
    attrs: dict[str, ast.expr] = field(default_factory=dict)       # class-level assignments
    annotations: dict[str, ast.expr] = field(default_factory=dict)
    bases: list["ClassInfo"] = field(default_factory=list)
    base_names: list[str] = field(default_factory=list)
    subclasses: list["ClassInfo"] = field(default_factory=list)
    _mro: list["ClassInfo"] | None = None

    @property
    def where(self) -> str:
        return f"{self.module.relpath}:{self.name}"

    def mro(self) -> list["ClassInfo"]:
        if self._mro is None:
            self._mro = _c3(self)
        return self._mro

    def lookup(self, name: str) -> FuncInfo | None:
        for c in self.mro():
            if name in c.methods:
                return c.methods[name]
        return None

    def lookup_attr(self, name: str) -> ast.expr | None:
        for c in self.mro():
            if name in c.attrs:
                return c.attrs[name]
        return None

    def is_subclass_of(self, name: str) -> bool:
        return any(c.name == name for c in self.mro()) or name in self.all_base_names()

    def all_base_names(self) -> set[str]:
        out = set()
        for c in self.mro():
            out.update(c.base_names)
        return out

    def all_subclasses(self) -> list["ClassInfo"]:
        seen, out, todo = set(), [], list(self.subclasses)
        while todo:
            c = todo.pop()
            if id(c) in seen:
                continue
            seen.add(id(c))
            out.append(c)
            todo.extend(c.subclasses)
        return out

    def __hash__(self) -> int:
        return id(self.node)

    def __eq__(self, other) -> bool:
        return isinstance(other, ClassInfo) and other.node is self.node


def _c3(cls: ClassInfo) -> list[ClassInfo]:
    def merge(seqs):
        res = []
        seqs = [list(s) for s in seqs if s]
        while seqs:
            for s in seqs:
                cand = s[0]
                if not any(cand in t[1:] for t in seqs):
                    break
            else:
                # inconsistent hierarchy: fall back to DFS order
                flat = []
                for s in seqs:
                    for c in s:
                        if c not in flat and c not in res:
                            flat.append(c)
                return res + flat
            res.append(cand)
            seqs = [[c for c in s if c is not cand] for s in seqs]
            seqs = [s for s in seqs if s]
        return res
    return [cls] + merge([b.mro() for b in cls.bases] + [list(cls.bases)])


@dataclass
class Module:
    name: str
    path: str
    relpath: str
    src: str
    tree: ast.Module
    imports: dict[str, tuple[str, str | None]] = field(default_factory=dict)   # local -> (module, attr)
    classes: dict[str, ClassInfo] = field(default_factory=dict)
    functions: dict[str, FuncInfo] = field(default_factory=dict)     # top-level
    all_functions: list[FuncInfo] = field(default_factory=list)      # incl. methods and nested
    constants: dict[str, ast.expr] = field(default_factory=dict)


_TREE_CACHE: dict = {}          # relpath -> list of (key, entry); the first entry (normally the unmodified tree) is kept, later ones LRU
_TREE_CACHE_VARIANTS = 2


def _cache_get(rel, key):
    slots = _TREE_CACHE.get(rel)
    if not slots:
        return None
    for i, (k, entry) in enumerate(slots):
        if k == key:
            if i > 0:
                slots.append(slots.pop(i))
            return entry
    return None


def _cache_put(rel, key, entry) -> None:
    slots = _TREE_CACHE.setdefault(rel, [])
    slots.append((key, entry))
    while len(slots) > 1 + _TREE_CACHE_VARIANTS:
        del slots[1]


class Repo:
    def __init__(self, root: str = "/repo", overrides: dict[str, str] | None = None,
                 include_tests: bool = False, extra_dirs: tuple[str, ...] = ()) -> None:
        self.root = root
        self.extra_dirs = tuple(d for d in extra_dirs if os.path.isdir(os.path.join(root, d)))
        self.modules: dict[str, Module] = {}
        self.by_relpath: dict[str, Module] = {}
        self.classes: dict[str, list[ClassInfo]] = {}
        self.overrides = overrides or {}
        self.parse_errors: list[str] = []
        self.recover_names = os.environ.get("SA_NO_NAME_RECOVERY") != "1"
        self.renamed_locals = 0
        self._load(include_tests)
        self._link()

    # ---------------------------------------------------------------- loading
    def _iter_files(self, include_tests: bool):
        pkg = os.path.join(self.root, "ipv8")
        if not os.path.isdir(pkg):
            raise AnalysisError(f"anchor-lost: package directory {pkg} missing")
        for d, dirs, files in os.walk(pkg):
            dirs.sort()
            rel = os.path.relpath(d, self.root)
            if not include_tests and (rel == os.path.join("ipv8", "test") or rel.startswith(os.path.join("ipv8", "test") + os.sep)):
                dirs[:] = []
                continue
            for f in sorted(files):
                if f.endswith(".py"):
                    yield os.path.join(rel, f)
        if os.path.exists(os.path.join(self.root, "ipv8_service.py")):
            yield "ipv8_service.py"
        for extra in self.extra_dirs:
            top = os.path.join(self.root, extra)
            for d, dirs, files in os.walk(top):
                dirs.sort()
                for f in sorted(files):
                    if f.endswith(".py"):
                        yield os.path.relpath(os.path.join(d, f), self.root)

    def _load(self, include_tests: bool) -> None:
        import re as _re
        sources: dict[str, str] = {}
        for rel in self._iter_files(include_tests):
            if rel in self.overrides:
                if self.overrides[rel] is not None:          # None: the variant deletes the file
                    sources[rel] = self.overrides[rel]
            else:
                with open(os.path.join(self.root, rel), encoding="utf-8") as fh:
                    sources[rel] = fh.read()
        # files that exist only in the variant under analysis (a helper moved into a new module)
        test_dir = os.path.join("ipv8", "test") + os.sep
        for rel, text in self.overrides.items():
            if text is not None and rel not in sources and rel.endswith(".py") and (rel.startswith("ipv8" + os.sep) or rel == "ipv8_service.py") \
                    and (include_tests or not rel.startswith(test_dir)):
                sources[rel] = text
        sources = dict(sorted(sources.items(), key=lambda kv: (kv[0] == "ipv8_service.py", kv[0].split(os.sep)[:-1], kv[0])))
        # names called (or imported) per file: a helper that another file calls must keep its definition when the normaliser inlines it
        called: dict[str, set[str]] = {rel: set(_re.findall(r"\b([A-Za-z_]\w*)\s*\(", src)) | set(_re.findall(r"import\s+([^\n]+)", src) and
                                                 _re.findall(r"\b([A-Za-z_]\w*)\b", " ".join(_re.findall(r"import\s+([^\n]+)", src))))
                                       for rel, src in sources.items()}
        # method names defined per file ("def " + name): a new method that a class in another file also defines is not inlined
        mdefs: dict[str, set[str]] = {rel: {"def " + n for n in _re.findall(r"^[ \t]+(?:async[ \t]+)?def[ \t]+([A-Za-z_]\w*)", src, _re.M)}
                                      for rel, src in sources.items()}
        for rel in called:
            called[rel] |= mdefs[rel]
        for rel, src in sources.items():
            path = os.path.join(self.root, rel)
            external = set().union(*(v for k, v in called.items() if k != rel)) if len(called) > 1 else set()
            key = (rel, self.recover_names, hash(src), hash(frozenset(external)) if "def " in src else 0)
            cached = _cache_get(rel, key)
            if cached is not None and cached[0] == src:
                tree = cached[1]
                self.renamed_locals += cached[2]
            else:
                try:
                    tree = ast.parse(src, filename=path)
                except SyntaxError as e:
                    raise AnalysisError(f"parse error in {rel}: {e}") from e
                n = 0
                if self.recover_names:
                    from .localnames import recover
                    try:
                        n = recover(tree, src, rel, external)
                    except Exception as e:  # noqa: BLE001
                        # the normaliser only removes reasons for false alarms: if it cannot cope with a file, the file is analysed as written
                        self.parse_errors.append(f"normaliser skipped {rel}: {type(e).__name__}: {e}")
                        tree = ast.parse(src, filename=path)
                        n = 0
                    self.renamed_locals += n
                set_parents(tree)
                # rules never mutate syntax trees, so a parsed + normalised tree is shared by every Repo of this process
                _cache_put(rel, key, (src, tree, n))
            modname = rel[:-3].replace(os.sep, ".")
            if modname.endswith(".__init__"):
                modname = modname[: -len(".__init__")]
            m = Module(modname, path, rel, src, tree)
            self.modules[modname] = m
            self.by_relpath[rel] = m
            self._index_module(m)

    def _index_module(self, m: Module) -> None:
        is_pkg = m.relpath.endswith("__init__.py")
        pkg_parts = m.name.split(".") if is_pkg else m.name.split(".")[:-1]

        def visit_imports(body):
            for node in body:
                if isinstance(node, ast.ImportFrom):
                    if node.level:
                        base = pkg_parts[: len(pkg_parts) - (node.level - 1)]
                        mod = ".".join(base + ([node.module] if node.module else []))
                    else:
                        mod = node.module or ""
                    for a in node.names:
                        m.imports[a.asname or a.name] = (mod, a.name)
                elif isinstance(node, ast.Import):
                    for a in node.names:
                        m.imports[a.asname or a.name.split(".")[0]] = (a.name if a.asname else a.name.split(".")[0], None)
                elif isinstance(node, ast.If):
                    visit_imports(node.body)
                    visit_imports(node.orelse)
                elif isinstance(node, ast.Try):
                    visit_imports(node.body)
                    for h in node.handlers:
                        visit_imports(h.body)
                    visit_imports(node.orelse)

        visit_imports(m.tree.body)

        def add_func(node, qual_prefix, cls):
            qn = (qual_prefix + "." if qual_prefix else "") + node.name
            fi = FuncInfo(node.name, qn, node, m, cls)
            node._info = fi  # type: ignore[attr-defined]
            m.all_functions.append(fi)
            for sub in walk_no_nested(node):
                if sub is not node and isinstance(sub, (ast.FunctionDef, ast.AsyncFunctionDef)):
                    add_func(sub, qn, cls)
            return fi

        def add_class(node, qual_prefix):
            ci = ClassInfo(node.name, node, m)
            ci.base_names = [chain(b) or norm(b) for b in node.bases]
            for st in node.body:
                if isinstance(st, (ast.FunctionDef, ast.AsyncFunctionDef)):
                    fi = add_func(st, (qual_prefix + "." if qual_prefix else "") + node.name, ci)
                    # property setters etc.: keep the first plain definition, but remember all
                    ci.methods.setdefault(st.name, fi)
                    if st.name in ci.methods and ci.methods[st.name] is not fi:
                        # later definition (e.g. @x.setter) - keep getter under the name, setter under name.setter
                        ci.methods[st.name + ".setter"] = fi
                elif isinstance(st, ast.Assign):
                    for t in st.targets:
                        if isinstance(t, ast.Name):
                            ci.attrs[t.id] = st.value
                elif isinstance(st, ast.AnnAssign) and isinstance(st.target, ast.Name):
                    ci.annotations[st.target.id] = st.annotation
                    if st.value is not None:
                        ci.attrs[st.target.id] = st.value
                elif isinstance(st, ast.ClassDef):
                    add_class(st, (qual_prefix + "." if qual_prefix else "") + node.name)
            node._info = ci  # type: ignore[attr-defined]
            if not qual_prefix:
                m.classes[node.name] = ci
            self.classes.setdefault(node.name, []).append(ci)
            return ci

        def visit_top(body):
            for node in body:
                if isinstance(node, (ast.FunctionDef, ast.AsyncFunctionDef)):
                    m.functions[node.name] = add_func(node, "", None)
                elif isinstance(node, ast.ClassDef):
                    add_class(node, "")
                elif isinstance(node, ast.Assign):
                    for t in node.targets:
                        if isinstance(t, ast.Name):
                            m.constants[t.id] = node.value
                elif isinstance(node, ast.AnnAssign) and isinstance(node.target, ast.Name) and node.value is not None:
                    m.constants[node.target.id] = node.value
                elif isinstance(node, ast.If):
                    visit_top(node.body)
                    visit_top(node.orelse)
                elif isinstance(node, ast.Try):
                    visit_top(node.body)
                    for h in node.handlers:
                        visit_top(h.body)

        visit_top(m.tree.body)

    def _link(self) -> None:
        for m in self.modules.values():
            for ci in list(m.classes.values()):
                for b in ci.node.bases:
                    target = self.resolve_class_expr(m, b)
                    if target is not None:
                        ci.bases.append(target)
                        target.subclasses.append(ci)

    # ---------------------------------------------------------------- resolution
    def resolve_name(self, m: Module, name: str, _depth: int = 0):
        """Resolve a bare name in module m to ClassInfo | FuncInfo | ('const', Module, expr) | None."""
        if _depth > 8:
            return None
        if name in m.classes:
            return m.classes[name]
        if name in m.functions:
            return m.functions[name]
        if name in m.constants:
            return ("const", m, m.constants[name])
        if name in m.imports:
            mod, attr = m.imports[name]
            if attr is None:
                return None
            target = self.modules.get(mod)
            if target is None:
                # "from .pkg import module"
                sub = self.modules.get(mod + "." + attr)
                return ("module", sub) if sub else None
            if attr in target.classes or attr in target.functions or attr in target.constants or attr in target.imports:
                return self.resolve_name(target, attr, _depth + 1)
            sub = self.modules.get(mod + "." + attr)
            return ("module", sub) if sub else None
        return None

    def resolve_class_expr(self, m: Module, expr: ast.AST) -> ClassInfo | None:
        expr = strip_cast(expr)
        if isinstance(expr, ast.Subscript):      # Generic[...] / Overlay[Settings]
            expr = expr.value
        if isinstance(expr, ast.Name):
            r = self.resolve_name(m, expr.id)
            return r if isinstance(r, ClassInfo) else None
        if isinstance(expr, ast.Attribute) and isinstance(expr.value, ast.Name):
            r = self.resolve_name(m, expr.value.id)
            if isinstance(r, tuple) and r[0] == "module" and r[1] is not None:
                return r[1].classes.get(expr.attr)
        return None

    def resolve_const(self, m: Module, expr: ast.AST, cls: ClassInfo | None = None, _depth: int = 0):
        """Constant folding for names / Class.attr / simple arithmetic; returns NOCONST when unknown."""
        if _depth > 10:
            return NOCONST
        v = const_value(expr)
        if v is not NOCONST:
            return v
        if isinstance(expr, ast.Name):
            r = self.resolve_name(m, expr.id)
            if isinstance(r, tuple) and r[0] == "const":
                return self.resolve_const(r[1], r[2], None, _depth + 1)
            return NOCONST
        if isinstance(expr, ast.Attribute):
            c = None
            if isinstance(expr.value, ast.Name) and expr.value.id in ("self", "cls") and cls is not None:
                c = cls
            else:
                c = self.resolve_class_expr(m, expr.value)
            if c is not None:
                a = c.lookup_attr(expr.attr)
                if a is not None:
                    owner = next(k for k in c.mro() if expr.attr in k.attrs)
                    return self.resolve_const(owner.module, a, owner, _depth + 1)
            return NOCONST
        if isinstance(expr, ast.BinOp):
            l = self.resolve_const(m, expr.left, cls, _depth + 1)
            r = self.resolve_const(m, expr.right, cls, _depth + 1)
            if l is NOCONST or r is NOCONST:
                return NOCONST
            try:
                if isinstance(expr.op, ast.Add):
                    return l + r
                if isinstance(expr.op, ast.Sub):
                    return l - r
                if isinstance(expr.op, ast.Mult):
                    return l * r
                if isinstance(expr.op, ast.Pow):
                    return l ** r
                if isinstance(expr.op, ast.FloorDiv):
                    return l // r
                if isinstance(expr.op, ast.LShift):
                    return l << r
                if isinstance(expr.op, ast.BitOr):
                    return l | r
            except Exception:
                return NOCONST
            return NOCONST
        if isinstance(expr, (ast.List, ast.Tuple)):
            vals = [self.resolve_const(m, e, cls, _depth + 1) for e in expr.elts]
            if any(v is NOCONST for v in vals):
                return NOCONST
            return vals if isinstance(expr, ast.List) else tuple(vals)
        return NOCONST

    # ---------------------------------------------------------------- lookup API
    def module(self, relpath: str) -> Module:
        m = self.by_relpath.get(relpath)
        if m is None:
            raise AnalysisError(f"anchor-lost: module {relpath} not found")
        return m

    def cls(self, name: str, relpath: str | None = None) -> ClassInfo:
        cands = self.classes.get(name, [])
        if relpath is not None:
            cands = [c for c in cands if c.module.relpath == relpath]
        if len(cands) != 1:
            raise AnalysisError(f"anchor-lost: class {name}" + (f" in {relpath}" if relpath else "")
                                + f" ({len(cands)} candidates)")
        return cands[0]

    def try_cls(self, name: str, relpath: str | None = None) -> ClassInfo | None:
        try:
            return self.cls(name, relpath)
        except AnalysisError:
            return None

    def method(self, clsname: str, meth: str, relpath: str | None = None, inherited: bool = False) -> FuncInfo:
        c = self.cls(clsname, relpath)
        f = c.lookup(meth) if inherited else c.methods.get(meth)
        if f is None:
            raise AnalysisError(f"anchor-lost: method {clsname}.{meth}")
        return f

    def func(self, relpath: str, qualname: str) -> FuncInfo:
        m = self.module(relpath)
        for f in m.all_functions:
            if f.qualname == qualname:
                return f
        raise AnalysisError(f"anchor-lost: function {qualname} in {relpath}")

    def all_functions(self):
        for m in self.modules.values():
            yield from m.all_functions

    def all_classes(self):
        for lst in self.classes.values():
            yield from lst

    def info(self, funcnode) -> FuncInfo:
        return funcnode._info

    def function_of(self, node: ast.AST) -> FuncInfo | None:
        f = enclosing_function(node)
        return f._info if f is not None else None

    def module_of(self, node: ast.AST) -> Module | None:
        top = node
        for a in ancestors(node):
            top = a
        for m in self.modules.values():
            if m.tree is top:
                return m
        return None

    # ---------------------------------------------------------------- call resolution (best effort)
    def resolve_call(self, fi: FuncInfo, call: ast.Call) -> list[FuncInfo]:
        """Possible targets of a call made inside function fi (virtual dispatch over-approximated)."""
        f = call.func
        out: list[FuncInfo] = []
        if isinstance(f, ast.Name):
            # local nested function?
            for g in fi.module.all_functions:
                if g.name == f.id and parent(g.node) is not None and enclosing_function(g.node) is not None \
                        and g.qualname.startswith(fi.qualname.rsplit(".", 1)[0]):
                    if enclosing_function(g.node) in [fi.node, *[a for a in ancestors(fi.node)]]:
                        out.append(g)
            if out:
                return out
            r = self.resolve_name(fi.module, f.id)
            if isinstance(r, FuncInfo):
                return [r]
            if isinstance(r, ClassInfo):
                init = r.lookup("__init__")
                return [init] if init else []
            return []
        if isinstance(f, ast.Attribute):
            base = f.value
            if isinstance(base, ast.Name) and base.id in ("self", "cls") and fi.cls is not None:
                return self.dispatch(fi.cls, f.attr)
            if isinstance(base, ast.Call) and isinstance(base.func, ast.Name) and base.func.id == "super" and fi.cls:
                mro = fi.cls.mro()
                for c in mro[1:]:
                    if f.attr in c.methods:
                        return [c.methods[f.attr]]
                return []
            c = self.resolve_class_expr(fi.module, base)
            if c is not None:
                m = c.lookup(f.attr)
                return [m] if m else []
            # self.<attr>.<meth>() with attr typed by constructor assignment / annotation
            t = self.type_of_expr(fi, base)
            if t is not None:
                return self.dispatch(t, f.attr)
        return []

    def dispatch(self, cls: ClassInfo, name: str) -> list[FuncInfo]:
        out = []
        m = cls.lookup(name)
        if m:
            out.append(m)
        for s in cls.all_subclasses():
            if name in s.methods and s.methods[name] not in out:
                out.append(s.methods[name])
        return out

    def attr_type(self, cls: ClassInfo, attr: str) -> ClassInfo | None:
        """Type of self.<attr> from `self.attr = Ctor(...)` / annotated assignment in any method of the MRO."""
        for c in cls.mro():
            if attr in c.annotations:
                t = self._annot_class(c.module, c.annotations[attr])
                if t:
                    return t
            for meth in c.methods.values():
                for n in walk_no_nested(meth.node):
                    tgt = val = ann = None
                    if isinstance(n, ast.Assign) and len(n.targets) == 1:
                        tgt, val = n.targets[0], n.value
                    elif isinstance(n, ast.AnnAssign):
                        tgt, val, ann = n.target, n.value, n.annotation
                    if isinstance(tgt, ast.Attribute) and isinstance(tgt.value, ast.Name) and tgt.value.id == "self" \
                            and tgt.attr == attr:
                        if ann is not None:
                            t = self._annot_class(c.module, ann)
                            if t:
                                return t
                        if val is not None:
                            v = strip_cast(val)
                            if isinstance(v, ast.Call):
                                t = self.resolve_class_expr(c.module, v.func)
                                if t:
                                    return t
        return None

    def _annot_class(self, m: Module, ann: ast.AST) -> ClassInfo | None:
        if isinstance(ann, ast.Constant) and isinstance(ann.value, str):
            try:
                ann = ast.parse(ann.value, mode="eval").body
            except SyntaxError:
                return None
        if isinstance(ann, ast.BinOp) and isinstance(ann.op, ast.BitOr):
            return self._annot_class(m, ann.left) or self._annot_class(m, ann.right)
        return self.resolve_class_expr(m, ann)

    def type_of_expr(self, fi: FuncInfo, expr: ast.AST) -> ClassInfo | None:
        expr = strip_cast(expr)
        if isinstance(expr, ast.Attribute) and isinstance(expr.value, ast.Name) and expr.value.id == "self" and fi.cls:
            return self.attr_type(fi.cls, expr.attr)
        if isinstance(expr, ast.Name):
            # parameter annotation
            a = fi.node.args
            for p in a.posonlyargs + a.args + a.kwonlyargs:
                if p.arg == expr.id and p.annotation is not None:
                    return self._annot_class(fi.module, p.annotation)
            # single local assignment from a constructor
            for n in walk_no_nested(fi.node):
                if isinstance(n, ast.Assign) and len(n.targets) == 1 and isinstance(n.targets[0], ast.Name) \
                        and n.targets[0].id == expr.id and isinstance(strip_cast(n.value), ast.Call):
                    fn = strip_cast(n.value).func
                    t = self.resolve_class_expr(fi.module, fn)
                    if t:
                        return t
                    if isinstance(fn, ast.Attribute):
                        # Class.classmethod(...) constructing an instance of Class
                        t = self.resolve_class_expr(fi.module, fn.value)
                        m = t.lookup(fn.attr) if t else None
                        if m is not None and any(d == "classmethod" for d in m.decorator_names()):
                            return t
        return None

    # ---------------------------------------------------------------- who-calls
    def callers_of_name(self, attr: str, *, include=None):
        """All call sites `<anything>.attr(...)` or `attr(...)` in the repo: (FuncInfo|None, Call)."""
        for m in self.modules.values():
            for n in ast.walk(m.tree):
                if isinstance(n, ast.Call):
                    f = n.func
                    nm = f.attr if isinstance(f, ast.Attribute) else f.id if isinstance(f, ast.Name) else None
                    if nm == attr:
                        yield m, self.function_of(n), n

    def attribute_uses(self, attr: str):
        for m in self.modules.values():
            for n in ast.walk(m.tree):
                if isinstance(n, ast.Attribute) and n.attr == attr:
                    yield m, self.function_of(n), n
