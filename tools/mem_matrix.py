#!/usr/bin/env python3
"""All 20 checks against every patch under a directory, applied IN MEMORY to /repo's current files (nothing is written).
  tools/mem_matrix.py <dir-with-*/patch.diff> [--own-only] [--out results.json]"""
import io, json, os, sys
from concurrent.futures import ProcessPoolExecutor
from contextlib import redirect_stdout
sys.path.insert(0, os.path.dirname(os.path.dirname(os.path.abspath(__file__))))
ALL = [f"C{i:02d}" for i in range(1, 21)]

def one(args):
    name, pf, props = args
    from sa.selftest import _apply
    from sa.check import run_property
    from sa.model import AnalysisError
    ov, why = _apply("/repo", {"patch": pf, "name": name})
    if ov is None:
        return name, {"error": why}
    res = {}
    for p in props:
        buf = io.StringIO()
        try:
            with redirect_stdout(buf):
                code, ctx = run_property(p, "/repo", "quick", overrides=ov, write=False, quiet=True)
            res[p] = {"exit": code, "rules": sorted({f.rule for f in ctx.findings}), "at": sorted({f.at for f in ctx.findings})[:4]}
        except AnalysisError as e:
            res[p] = {"exit": 2, "rules": [], "error": str(e)[:200]}
        except Exception as e:  # noqa: BLE001
            res[p] = {"exit": 3, "rules": [], "error": f"CRASH {type(e).__name__}: {e}"[:200]}
    return name, res

def main():
    base = sys.argv[1]
    own_only = "--own-only" in sys.argv
    props = sys.argv[sys.argv.index("--props") + 1].split(",") if "--props" in sys.argv else ALL
    workers = int(sys.argv[sys.argv.index("--workers") + 1]) if "--workers" in sys.argv else 8
    jobs = []
    for n in sorted(os.listdir(base)):
        pf = os.path.join(base, n, "patch.diff")
        if os.path.exists(pf):
            jobs.append((n, pf, [n.split("-")[0]] if own_only else props))
    out = {}
    with ProcessPoolExecutor(max_workers=workers) as ex:
        for name, res in ex.map(one, jobs):
            out[name] = res
            own = name.split("-")[0]
            if "--props" in sys.argv and len(props) == 1:
                own = props[0]
            if "error" in res:
                print(name, "ERROR", res["error"]); continue
            o = res.get(own, {})
            others = {p: v["exit"] for p, v in res.items() if p != own and v["exit"]}
            print(f"{name} own={o.get('exit')} {','.join(o.get('rules', []))} {o.get('error','')} others={others}", flush=True)
    if "--out" in sys.argv:
        json.dump(out, open(sys.argv[sys.argv.index("--out") + 1], "w"), indent=1)
main()
