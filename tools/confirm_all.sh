#!/bin/bash
# confirm every seeded change in parallel (scratch worktrees under /tmp, removed afterwards)
cd /verif
ls -d seeded/C*-m* | xargs -P 4 -I{} sh -c '/venv/bin/python tools/eval_seeded.py confirm {} > {}/confirm.json 2>&1; echo done {}'
