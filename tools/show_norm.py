#!/usr/bin/env python3
"""tools/show_norm.py <patch.diff> [function-name-substring]  - print the normalised source of the patched files' functions"""
import ast, os, sys
sys.path.insert(0, os.path.dirname(os.path.dirname(os.path.abspath(__file__))))
from sa.selftest import _apply
from sa.localnames import recover
ov, why = _apply("/repo", {"patch": sys.argv[1], "name": "x"})
for rel, src in ov.items():
    tree = ast.parse(src)
    n = recover(tree, src, rel)
    print(f"### {rel}: {n} rewrites")
    if len(sys.argv) > 2:
        for x in ast.walk(tree):
            if isinstance(x, (ast.FunctionDef, ast.AsyncFunctionDef)) and sys.argv[2] in x.name:
                print(ast.unparse(x)); print()
