"""HEAD defect (C03 'handing bytes to a node returns normally'): a challenge response whose single byte is not 0..3 raises KeyError in
bonehexact.attestation.process_challenge_response AFTER the module-wide lock was acquired and before it is released; the handler's
exception is logged by on_packet, but the lock stays held and the next challenge response (of any verification in the process) blocks the
event loop thread forever."""
import sys, threading
sys.path.insert(0, sys.argv[1] if len(sys.argv) > 1 else "/repo")
from ipv8.attestation.wallet.bonehexact.algorithm import BonehExactAlgorithm
from ipv8.attestation.wallet.bonehexact import attestation as att

algo = BonehExactAlgorithm.__new__(BonehExactAlgorithm)
aggregate = att.create_empty_relativity_map()
try:
    algo.process_challenge_response(aggregate, b"", b"\x07")        # what on_challenge_response does with payload.response
except KeyError:
    pass                                                             # (Community.on_packet logs it and goes on)
done = []
t = threading.Thread(target=lambda: (algo.process_challenge_response(aggregate, b"", b"\x01"), done.append(1)), daemon=True)
t.start(); t.join(3)
assert done, "the next honest challenge response never returns: the lock leaked by the malformed one is still held"
print("OK")
