"""
HEAD: get_peers_for_service() can return a Peer INSTANCE that is not the verified one (stale addresses).
"""
from ipv8.keyvault.crypto import default_eccrypto
from ipv8.messaging.interfaces.udp.endpoint import UDPv4Address
from ipv8.peer import Peer
from ipv8.peerdiscovery.network import Network

S = b"s" * 20
key = default_eccrypto.generate_key("very-low").pub()
early = Peer(key, UDPv4Address("1.1.1.1", 1001))   # instance seen while the identity was not verified yet
later = Peer(key.key_to_bin(), UDPv4Address("9.9.9.9", 9009))  # same identity, the instance that gets verified

network = Network()
assert network.get_peers_for_service(S) == []     # a cached (empty) list for S now exists
network.discover_services(early, [S])             # unverified: cached list becomes [early]
network.add_verified_peer(later)                  # _add_to_service_caches: 'later in cache' by equality -> not added
verified = network.get_verified_by_public_key_bin(key.key_to_bin())
assert verified is later and verified in network.verified_peers
by_service = network.get_peers_for_service(S)
assert len(by_service) == 1
assert by_service[0] is verified, (f"peers-per-service returns {by_service[0]} but the verified peer is {verified}: "
                                   f"addresses {dict(by_service[0].addresses)} vs {dict(verified.addresses)}")
print("ok")
