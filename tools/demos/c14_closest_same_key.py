"""
HEAD defect (C14, closest-nodes clause): RoutingTable.closest_nodes collects the candidates in a *set of Node objects*.
Node inherits Peer.__eq__/__hash__, which compare the PUBLIC KEY only, while the routing table is keyed by node id
(= crc32(masked IP)[:3] + key-hash[:17]). One key seen from two networks gives two different node ids, both stored
as separate live entries - but the set collapses them, so closest_nodes returns fewer than / other than the k nearest
live nodes.
"""
from ipv8.dht.routing import NODE_STATUS_BAD, Node, RoutingTable, distance
from ipv8.keyvault.crypto import default_eccrypto


def main() -> None:
    table = RoutingTable(Node(default_eccrypto.generate_key("very-low").pub(), ("5.6.7.8", 1)).id)
    for i in range(4):
        table.add(Node(default_eccrypto.generate_key("very-low").pub(), (f"23.{i + 1}.7.9", 8000 + i)))

    roamer = default_eccrypto.generate_key("very-low").pub()
    first, second = Node(roamer, ("10.1.2.3", 8090)), Node(roamer, ("77.200.9.1", 8090))
    assert first.id != second.id
    assert table.add(first) is first and table.add(second) is second
    assert table.get(first.id) is first and table.get(second.id) is second  # two distinct live entries

    live = [n for b in table.trie.values() for n in b.nodes.values() if n.status != NODE_STATUS_BAD]
    assert len(live) == 6
    for target in (first.id, second.id):
        expected = sorted(live, key=lambda n: distance(n.id, target))[:8]
        got = table.closest_nodes(target, max_nodes=8)
        assert [n.id for n in got] == [n.id for n in expected], \
            f"closest_nodes returned {len(got)} of {len(expected)} live nodes; missing ids: " \
            f"{[n.id.hex() for n in expected if n.id not in {g.id for g in got}]}"
    print("ok")


if __name__ == "__main__":
    main()
