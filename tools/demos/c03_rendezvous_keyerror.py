"""
HEAD defect demo for C03: a cell for the surviving half of a rendezvous (e2e-linked) relay pair makes
PythonCryptoEndpoint.relay_cell raise KeyError, which escapes through process_cell -> on_packet -> notify_listeners.
"""
import asyncio
import logging
import os
import time

from ipv8.messaging.anonymization.community import TunnelCommunity, TunnelSettings
from ipv8.messaging.anonymization.crypto import TunnelCrypto
from ipv8.messaging.anonymization.payload import CellPayload
from ipv8.messaging.anonymization.tunnel import FORWARD, PEER_FLAG_RELAY, Hop, RelayRoute
from ipv8.peer import Peer
from ipv8.keyvault.crypto import default_eccrypto
from ipv8.test.mocking.ipv8 import MockIPv8

logging.disable(logging.CRITICAL)


async def main() -> None:
    settings = TunnelSettings()
    settings.min_circuits = settings.max_circuits = 0
    settings.remove_tunnel_delay = 0
    settings.peer_flags = {PEER_FLAG_RELAY}
    node = MockIPv8("curve25519", TunnelCommunity, settings=settings)
    overlay = node.overlay
    try:
        # The state on_link_e2e leaves behind: two rendezvous relay routes that point at each other.
        keys_a = TunnelCrypto.generate_session_keys(os.urandom(64))
        secret_b = os.urandom(64)
        keys_b = TunnelCrypto.generate_session_keys(secret_b)
        peer_a = Peer(default_eccrypto.generate_key("curve25519").pub(), ("1.1.1.1", 1))
        peer_b = Peer(default_eccrypto.generate_key("curve25519").pub(), ("2.2.2.2", 2))
        a, b = 1111, 2222
        overlay.relay_from_to[a] = RelayRoute(b, Hop(peer_b, keys_a), FORWARD, True)
        overlay.relay_from_to[b] = RelayRoute(a, Hop(peer_a, keys_b), FORWARD, True)

        # Traffic only flows a -> b: receiving on a beats the heart of relay_from_to[b] only (process_cell),
        # so after max_time_inactive the housekeeping removes relay_from_to[a] and keeps relay_from_to[b].
        overlay.relay_from_to[a].last_activity = time.time() - settings.max_time_inactive - 1
        overlay.do_remove()
        await asyncio.sleep(0.05)
        assert a not in overlay.relay_from_to and b in overlay.relay_from_to

        # Now the legitimate peer on circuit b (it holds the same session keys) finally sends a cell.
        sender_keys = TunnelCrypto.generate_session_keys(secret_b)
        cell = CellPayload(b, sender_keys.encrypt_str(b"\x01" + os.urandom(47), FORWARD)).to_bin(overlay.get_prefix())
        try:
            node.endpoint.notify_listeners((("2.2.2.2", 2), cell))
        except Exception as e:
            raise AssertionError(f"cell for circuit {b} made the receive path raise {type(e).__name__}: {e}") from e
    finally:
        await node.stop()
    print("ok")


asyncio.run(main())
