"""
HEAD behaviour check for C05: a third party that knows only a circuit id (no keys) sends plaintext CREATED cells
naming that id to the originator while the circuit is still waiting for its first hop. The only thing protecting
the circuit is the 16-bit identifier of the pending request, which can be enumerated; the source address is not
checked. A CREATED with a malformed (short) DH key then makes _ours_on_created_extended hit its
'except ValueError: remove_circuit' path, so the outsider removes the circuit.
Exits 1 if the circuit was removed by the outsider.
"""
import asyncio
import sys
from struct import pack

from ipv8.messaging.anonymization.community import TunnelCommunity, TunnelSettings
from ipv8.messaging.anonymization.payload import CellPayload, CreatedPayload
from ipv8.messaging.anonymization.tunnel import PEER_FLAG_EXIT_BT, PEER_FLAG_RELAY
from ipv8.test.mocking.endpoint import internet
from ipv8.test.mocking.ipv8 import MockIPv8


def create_node(flags: set) -> MockIPv8:
    settings = TunnelSettings()
    settings.min_circuits = settings.max_circuits = 0
    settings.remove_tunnel_delay = 0
    settings.peer_flags = set(flags)
    node = MockIPv8("curve25519", TunnelCommunity, settings=settings)
    node.overlay.cancel_all_pending_tasks()
    node.overlay.settings.max_circuits = 1
    return node


async def main() -> int:
    internet.clear()
    nodes = [create_node({PEER_FLAG_RELAY}), create_node({PEER_FLAG_RELAY, PEER_FLAG_EXIT_BT}), create_node(set())]
    try:
        nodes[0].overlay.walk_to(nodes[1].endpoint.wan_address)
        await asyncio.sleep(0.2)
        origin, slow_exit, outsider = (n.overlay for n in nodes)
        slow_exit.settings.peer_flags = set()  # the chosen first hop never answers the CREATE
        origin.build_tunnels(1)
        await asyncio.sleep(0.2)
        circuit_id = next(iter(origin.circuits))
        assert origin.circuits[circuit_id].state == "EXTENDING" and not slow_exit.exit_sockets

        for identifier in range(2 ** 16):
            payload = CreatedPayload(circuit_id, identifier, b"short", b"\x00" * 32, b"")
            message = pack("!B", payload.msg_id) + outsider.serializer.pack_serializable(payload)[4:]
            cell = CellPayload(circuit_id, message, plaintext=True)
            outsider.endpoint.send(nodes[0].endpoint.wan_address, cell.to_bin(origin.get_prefix()))
            if identifier % 4096 == 0:
                await asyncio.sleep(0.01)
        await asyncio.sleep(1.0)

        if circuit_id not in origin.circuits or origin.circuits[circuit_id].state == "CLOSING":
            print("C05 VIOLATED on HEAD: outsider without keys removed circuit %d with forged plaintext CREATED cells"
                  % circuit_id)
            return 1
        print("ok: circuit survived")
        return 0
    finally:
        for node in nodes:
            await node.stop()
        internet.clear()


if __name__ == "__main__":
    sys.exit(asyncio.run(main()))
