"""
HEAD defect demo (C19, wallet AttestationsDB upgrade path): a version-1 attestation database holding a record is
opened by the current code (upgrade 1 -> 2). The process is SIGKILLed after the upgrade script's ALTER TABLE ran
(autocommitted by executescript) but before the version record is rewritten. A fresh process must be able to open
the database again; on the unmodified tree it raises sqlite3.OperationalError: duplicate column name: id_format.
"""
import os
import signal
import sqlite3
import subprocess
import sys
import tempfile

from ipv8.attestation.wallet.database import AttestationsDB
from ipv8.database import Database


def make_v1(workdir):
    os.makedirs(os.path.join(workdir, "sqlite"))
    con = sqlite3.connect(os.path.join(workdir, "sqlite", "att.db"))
    con.executescript("""
        CREATE TABLE att(hash BLOB, blob LONGBLOB, key MEDIUMBLOB, PRIMARY KEY (hash));
        CREATE TABLE option(key TEXT PRIMARY KEY, value BLOB);
        INSERT INTO option(key, value) VALUES('database_version', '1');
        INSERT INTO att(hash, blob, key) VALUES(x'01', x'02', x'03');
    """)
    con.commit()
    con.close()


def upgrade_and_die(workdir):
    original_connect = Database._connect

    def killing_connect(self):
        original_connect(self)

        def trace(statement):
            if statement.lstrip().upper().startswith("UPDATE ATT SET ID_FORMAT"):
                os.kill(os.getpid(), signal.SIGKILL)  # ALTER TABLE has been committed, nothing else has
        self._connection.set_trace_callback(trace)

    Database._connect = killing_connect
    AttestationsDB(workdir, "att")
    sys.exit(3)


def verify(workdir):
    db = AttestationsDB(workdir, "att")  # must open without error
    assert [bytes(r[0]) for r in db.get_all()] == [b"\x01"]


def run(phase, workdir):
    return subprocess.run([sys.executable, os.path.abspath(__file__), phase, workdir],
                          capture_output=True, text=True, timeout=25)


if __name__ == "__main__":
    if len(sys.argv) == 3:
        {"upgrade_and_die": upgrade_and_die, "verify": verify}[sys.argv[1]](sys.argv[2])
    else:
        with tempfile.TemporaryDirectory() as workdir:
            make_v1(workdir)
            assert run("upgrade_and_die", workdir).returncode == -signal.SIGKILL, "crash point not reached"
            result = run("verify", workdir)
            assert result.returncode == 0, "reopen failed:\n" + "\n".join(result.stderr.strip().splitlines()[-4:])
        print("ok")
