"""
Head defect demo (C05): a relay picks the id of the next circuit segment with _generate_circuit_id(), which only avoids
ids in self.circuits - not ids already used in relay_from_to / exit_sockets. If the random id collides with the id of a
circuit the node is the exit of, on_created installs a relay entry under that id: process_cell looks at relays first, so
circuit C's cells are from then on relayed into circuit B (towards B's originator) instead of reaching C's exit socket.
The collision (probability 2^-32 per routing entry and extend) is forced here by patching random.getrandbits for one draw.
"""
import asyncio
import random
import sys
from unittest.mock import patch

from ipv8.messaging.anonymization.community import TunnelCommunity, TunnelSettings
from ipv8.messaging.anonymization.tunnel import PEER_FLAG_EXIT_BT, PEER_FLAG_RELAY
from ipv8.peer import Peer
from ipv8.test.mocking.ipv8 import MockIPv8


def create_node(is_exit: bool = False) -> MockIPv8:
    settings = TunnelSettings()
    settings.min_circuits = 0
    settings.max_circuits = 0
    settings.peer_flags = {PEER_FLAG_RELAY} | ({PEER_FLAG_EXIT_BT} if is_exit else set())
    node = MockIPv8("curve25519", TunnelCommunity, settings=settings)
    node.overlay.crypto_endpoint.setup_tunnels(node.overlay, settings)
    node.overlay.cancel_all_pending_tasks()
    return node


def know(node: MockIPv8, other: MockIPv8) -> Peer:
    peer = Peer(other.my_peer.public_key, other.my_peer.address)
    node.network.add_verified_peer(peer)
    node.network.discover_services(peer, [other.overlay.community_id])
    node.overlay.candidates[peer] = list(other.overlay.settings.peer_flags)
    return peer


async def two_hop(origin: MockIPv8, relay: MockIPv8, exit_node: MockIPv8) -> int:
    know(origin, relay)
    circuit = origin.overlay.create_circuit(2, required_exit=know(origin, exit_node))
    assert circuit is not None
    assert await asyncio.wait_for(circuit.ready, 10), "circuit did not become ready"
    assert [h.peer.public_key.key_to_bin() for h in circuit.hops] == \
        [relay.my_peer.public_key.key_to_bin(), exit_node.my_peer.public_key.key_to_bin()]
    return circuit.circuit_id


async def main() -> None:
    relay, exit2, orig1, orig2 = create_node(True), create_node(True), create_node(), create_node()
    nodes = [relay, exit2, orig1, orig2]
    try:
        # Circuit C: orig1 -> relay (acting as exit).
        circuit_c = orig1.overlay.create_circuit(1, required_exit=know(orig1, relay))
        assert await asyncio.wait_for(circuit_c.ready, 10)
        a_id = circuit_c.circuit_id
        table = relay.overlay.relay_from_to
        assert a_id in relay.overlay.exit_sockets and a_id not in table

        # Force the one-in-2^32 draw: the relay's next random id equals the id of circuit C.
        real_generate, real_bits = relay.overlay._generate_circuit_id, random.getrandbits
        draws = iter([a_id])

        def generate() -> int:
            with patch("random.getrandbits", lambda n: next(draws, None) or real_bits(n)):
                return real_generate()
        relay.overlay._generate_circuit_id = generate

        await two_hop(orig2, relay, exit2)
        await asyncio.sleep(.2)

        assert a_id not in table, \
            f"id {a_id} of circuit C (exit socket) now also names a relay entry leading into circuit B " \
            f"({table[a_id].circuit_id} @ {table[a_id].hop.address}): C's cells are relayed to B's originator"
    finally:
        for node in nodes:
            await node.stop()


if __name__ == "__main__":
    try:
        asyncio.run(main())
    except AssertionError as e:
        print("FAIL:", e)
        sys.exit(1)
    print("OK")
