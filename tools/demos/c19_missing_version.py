"""
HEAD defect demo (C19): kill the process while IdentityDatabase.open() re-runs its schema script on an existing,
populated database - between 'DELETE FROM option WHERE key = database_version' and the following
'INSERT INTO option ... database_version'. Both statements run in autocommit mode (sqlite3 executescript), so
the DELETE is durable. The database can never be opened again: Database._prepare_version() calls next() on an
empty result (StopIteration, only OperationalError is caught).
"""
import binascii
import os
import signal
import subprocess
import sys
import tempfile

from ipv8.attestation.identity.database import IdentityDatabase
from ipv8.attestation.identity.manager import IdentityManager
from ipv8.keyvault.crypto import default_eccrypto


class KilledDatabase(IdentityDatabase):
    """
    An identity database whose process dies right before the version record is re-inserted.
    """

    def _connect(self) -> None:
        super()._connect()

        def trace(statement: str) -> None:
            if "INSERT INTO option" in statement:
                os.kill(os.getpid(), signal.SIGKILL)
        self._connection.set_trace_callback(trace)


def child(path: str) -> None:
    KilledDatabase(path).open()
    sys.exit(3)  # Not reached.


def main() -> None:
    key = default_eccrypto.generate_key("curve25519")
    with tempfile.TemporaryDirectory() as directory:
        path = os.path.join(directory, "identity.db")
        manager = IdentityManager(path)
        credential = manager.get_pseudonym(key).create_credential(b"a" * 32, {"name": "demo"})
        assert credential is not None
        manager.database.close()  # Everything is committed and the database is closed cleanly.

        process = subprocess.run([sys.executable, __file__, path], check=False)  # A later start that gets killed.
        assert process.returncode == -signal.SIGKILL, f"child was not killed: {process.returncode}"

        try:
            reopened = IdentityManager(path)
        except BaseException as e:
            msg = f"database cannot be opened after the kill: {e!r}"
            raise AssertionError(msg) from e
        assert len(reopened.get_pseudonym(key.pub()).get_credentials()) == 1
        reopened.database.close()
    print("OK")


if __name__ == "__main__":
    if len(sys.argv) == 2:
        child(sys.argv[1])
    else:
        main()
