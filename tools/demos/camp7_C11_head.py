"""
HEAD: TaskManager.shutdown_task_manager (and so Overlay.unload) can return while a cancelled task is still running.
gather(*tasks) without return_exceptions propagates CancelledError as soon as the FIRST cancelled task finishes;
suppress(CancelledError) swallows it and shutdown returns, although other cancelled tasks may still be inside an
awaited cleanup (try/finally or except CancelledError with an await) and can still send packets afterwards.
"""
import asyncio

from ipv8.peerdiscovery.community import DiscoveryCommunity
from ipv8.test.mocking.ipv8 import MockIPv8


async def main() -> None:
    node = MockIPv8("low", DiscoveryCommunity)
    node.endpoint.open()
    overlay = node.overlay
    sent_after_unload = []

    async def worker() -> None:
        try:
            await asyncio.sleep(100)
        finally:
            await asyncio.sleep(0.05)  # awaited cleanup, e.g. flushing / closing something
            overlay.endpoint.send(("1.2.3.4", 5), b"goodbye")

    overlay.register_task("worker", worker)
    await asyncio.sleep(0.01)
    await overlay.unload()
    unloaded = True
    real_send = node.endpoint.send
    node.endpoint.send = lambda a, p: (sent_after_unload.append(p), real_send(a, p))[1]
    still_running = [t for t in asyncio.all_tasks() if t is not asyncio.current_task() and not t.done()
                     and "worker" in t.get_name()]
    await asyncio.sleep(0.2)
    node.endpoint.close()
    if node.dht:
        await node.dht.unload()
    assert unloaded and not still_running, f"task still running after unload completed: {still_running}"
    assert not sent_after_unload, "overlay sent a packet after unload completed"


asyncio.run(main())
print("OK")
