"""
Fails on the UNMODIFIED tree. Two independent C20 violations; see head_defect.md.
Run: cd /tmp/w9_C20 && PYTHONPATH=/tmp/w9_C20 /venv/bin/python head_defect.py
"""
from __future__ import annotations

import sys
from dataclasses import dataclass

from ipv8.messaging.lazy_payload import VariablePayload, vp_compile
from ipv8.messaging.payload_dataclass import DataClassPayload
from ipv8.messaging.serialization import default_serializer

failures = []


# --- 1. decode with a dataclass payload class that has not been instantiated yet ------------------------------
class PlainPair(VariablePayload):
    names = ["a", "b"]
    format_list = ["q", "q"]


@dataclass
class DataPair(DataClassPayload):
    a: int
    b: int


wire = default_serializer.pack_serializable(PlainPair(1, 2))
plain_decoded, _ = default_serializer.unpack_serializable(PlainPair, wire)
try:
    decoded, _ = default_serializer.unpack_serializable(DataPair, wire)  # DataPair.format_list is still []
    assert (decoded.a, decoded.b) == (plain_decoded.a, plain_decoded.b)
except Exception as e:  # noqa: BLE001
    failures.append(f"decode before first construction: {type(e).__name__}: {e}")


# --- 2. constructor default whose repr() is not an evaluable expression ----------------------------------------
class Limit(VariablePayload):
    names = ["a", "b"]
    format_list = ["q", "d"]

    def __init__(self, a: int, b: float = float("inf"), **kwargs) -> None:
        super().__init__(a, b, **kwargs)


plain_bytes = default_serializer.pack_serializable(Limit(1))
try:
    compiled = vp_compile(type("CompiledLimit", (Limit,), {}))
    assert default_serializer.pack_serializable(compiled(1)) == plain_bytes
except Exception as e:  # noqa: BLE001
    failures.append(f"float('inf') default: {type(e).__name__}: {e}")

for failure in failures:
    print("HEAD DEFECT:", failure)
sys.exit(1 if failures else 0)
