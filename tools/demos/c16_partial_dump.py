import sys
sys.path.insert(0, sys.argv[1] if len(sys.argv) > 1 else "/repo")
from ipv8.attestation.tokentree.tree import TokenTree
from ipv8.keyvault.crypto import ECCrypto
sk = ECCrypto().generate_key("curve25519")
own = TokenTree(private_key=sk)
tip = None
for i in range(150):
    tip = own.add(b"c%d" % i, tip)
viewer = TokenTree(public_key=sk.pub())
viewer.unserialize_public(own.serialize_public(tip))
missing = set(own.elements) - set(viewer.elements)
assert not missing, f"partial dump of a 150-token chain lost {len(missing)} tokens on reload; {len(viewer.unchained)} left waiting"
print("OK")
