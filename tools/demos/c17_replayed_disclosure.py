"""
C17 on the UNMODIFIED tree: an attestor signs the same metadata again for a replayed disclosure, if the disclosure carries
a (valid) attestation by some third authority. The Attestations table is keyed on (public_key, metadata_pointer) and
insert_attestation uses INSERT OR IGNORE, so the attestor's own attestation is silently dropped when the third party's
row is already there; should_sign's "already attested" check therefore never sees it.
"""
import asyncio

from ipv8.attestation.identity.community import IdentityCommunity, IdentitySettings
from ipv8.attestation.identity.manager import IdentityManager
from ipv8.attestation.identity.payload import DisclosePayload
from ipv8.peer import Peer
from ipv8.test.mocking.ipv8 import MockIPv8

HASH = b"a" * 32


def make_node() -> MockIPv8:
    return MockIPv8("curve25519", IdentityCommunity,
                    settings=IdentitySettings(identity_manager=IdentityManager(":memory:")))


async def main() -> None:
    subject, attestor, third = make_node(), make_node(), make_node()
    try:
        subject_key = subject.my_peer.public_key
        attestor_peer = Peer(attestor.my_peer.public_key, attestor.endpoint.wan_address)
        third_peer = Peer(third.my_peer.public_key, third.endpoint.wan_address)

        # Step 1: an honest round with a third authority, so that the subject owns a valid third-party attestation.
        third.overlay.add_known_hash(HASH, "attribute", subject_key.key_to_bin())
        subject.overlay.request_attestation_advertisement(third_peer, HASH, "attribute")
        await asyncio.sleep(0.5)
        credential, = subject.overlay.pseudonym_manager.get_credentials()
        third_attestation, = credential.attestations

        # Count how often the attestor signs.
        signatures = []
        pseudonym_at_attestor = attestor.overlay.identity_manager.get_pseudonym(subject_key)
        original_create = pseudonym_at_attestor.create_attestation

        def counting_create(metadata, private_key):  # noqa: ANN001, ANN202
            signatures.append(metadata.get_hash())
            return original_create(metadata, private_key)
        pseudonym_at_attestor.create_attestation = counting_create

        # Step 2: the attestor's user registers the attribute ONCE; the subject discloses the credential including
        # the third party's attestation, and then simply replays the very same disclosure.
        attestor.overlay.add_known_hash(HASH, "attribute", subject_key.key_to_bin())
        disclosure = subject.overlay.pseudonym_manager.disclose_credentials([credential],
                                                                            {third_attestation.get_hash()})
        for _ in range(3):
            subject.overlay.ez_send(attestor_peer, DisclosePayload(*disclosure))
            await asyncio.sleep(0.3)

        assert len(signatures) >= 1, "the first disclosure should have been signed"
        assert len(signatures) == 1, \
            f"attestor signed the same metadata {len(signatures)} times: 'has not attested it already' does not hold"
    finally:
        for node in (subject, attestor, third):
            await node.stop()


asyncio.run(main())
print("ok")
