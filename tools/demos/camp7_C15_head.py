"""
HEAD defect candidate (C15, lookup clause): DHTCommunity.find runs one crawl per routing table (IPv4 / IPv6)
and post-processes each crawl's values separately; merge_results then just concatenates. With two routing
tables a signer whose older version is found by one crawl and newer version by the other is reported twice,
so the lookup also reports a version lower than the highest one it saw for that signer.
"""
import asyncio
import sys
import time

from ipv8.dht.community import DHTCommunity
from ipv8.dht.routing import Node, RoutingTable
from ipv8.messaging.interfaces.udp.endpoint import UDPv6Address
from ipv8.test.mocking.ipv8 import MockIPv8


async def main() -> int:
    a, b, c, signer = (MockIPv8("curve25519", DHTCommunity) for _ in range(4))
    try:
        key = b"\x42" * 20
        old = signer.overlay.serialize_value(b"old", sign=True)
        real_time = time.time
        time.time = lambda: real_time() + 10
        new = signer.overlay.serialize_value(b"new", sign=True)
        time.time = real_time
        a_node = Node(a.my_peer.key, a.my_peer.address)
        b.overlay.add_value(key, old, b.overlay.get_storage(a_node))
        c.overlay.add_value(key, new, c.overlay.get_storage(a_node))

        # A is dual-stack: B is known through one routing table, C through the other one.
        b_node, c_node = (Node(n.my_peer.key, n.my_peer.address) for n in (b, c))
        a.overlay.get_routing_table(b_node).add(b_node)
        second = RoutingTable(a.overlay.get_my_node_id(c_node))
        second.add(c_node)
        a.overlay.routing_tables[UDPv6Address] = second

        results = await asyncio.wait_for(a.overlay.find_values(key), 10)
        pk = signer.my_peer.public_key.key_to_bin()
        by_signer = [data for data, k in results if k == pk]
        assert by_signer == [b"new"], f"lookup reported {by_signer!r} for one signer, expected only the highest version"
    finally:
        for n in (a, b, c, signer):
            await n.stop()
    return 0


if __name__ == "__main__":
    sys.exit(asyncio.run(main()))
