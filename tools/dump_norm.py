#!/usr/bin/env python3
"""tools/dump_norm.py <root> file...  - overwrite the files (under root) with the unparse of their normalised tree
(same pipeline and same cross-file information as sa.model.Repo._load)"""
import ast, os, re, sys
sys.path.insert(0, os.path.dirname(os.path.dirname(os.path.abspath(__file__))))
from sa.localnames import recover
root = sys.argv[1]
sources = {}
for d, dirs, files in os.walk(os.path.join(root, "ipv8")):
    dirs.sort()
    rel = os.path.relpath(d, root)
    if rel == os.path.join("ipv8", "test") or rel.startswith(os.path.join("ipv8", "test") + os.sep):
        dirs[:] = []
        continue
    for f in sorted(files):
        if f.endswith(".py"):
            sources[os.path.join(rel, f)] = open(os.path.join(d, f), encoding="utf-8").read()
if os.path.exists(os.path.join(root, "ipv8_service.py")):
    sources["ipv8_service.py"] = open(os.path.join(root, "ipv8_service.py"), encoding="utf-8").read()
called = {rel: set(re.findall(r"\b([A-Za-z_]\w*)\s*\(", src)) | set(re.findall(r"\b([A-Za-z_]\w*)\b", " ".join(re.findall(r"import\s+([^\n]+)", src))))
          for rel, src in sources.items()}
for rel, src in sources.items():
    called[rel] |= {"def " + n for n in re.findall(r"^[ \t]+(?:async[ \t]+)?def[ \t]+([A-Za-z_]\w*)", src, re.M)}
tot = 0
for rel in sys.argv[2:]:
    p = os.path.join(root, rel)
    src = open(p, encoding="utf-8").read()
    tree = ast.parse(src)
    external = set().union(*(v for k, v in called.items() if k != rel))
    n = recover(tree, src, rel, external)
    tot += n
    if n:
        open(p, "w", encoding="utf-8").write(ast.unparse(tree) + "\n")
print("rewrites", tot)
