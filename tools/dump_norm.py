#!/usr/bin/env python3
"""tools/dump_norm.py <root> file...  - overwrite the files (under root) with the unparse of their normalised tree"""
import ast, os, sys
sys.path.insert(0, os.path.dirname(os.path.dirname(os.path.abspath(__file__))))
from sa.localnames import recover
root = sys.argv[1]
tot = 0
for rel in sys.argv[2:]:
    p = os.path.join(root, rel)
    src = open(p, encoding="utf-8").read()
    tree = ast.parse(src)
    n = recover(tree, src, rel)
    tot += n
    if n:
        open(p, "w", encoding="utf-8").write(ast.unparse(tree) + "\n")
print("rewrites", tot)
