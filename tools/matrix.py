#!/usr/bin/env python3
"""Run all 20 checks against every seeded change, in parallel, each in its own scratch worktree (removed afterwards)."""
import json, os, subprocess, sys, tempfile
from concurrent.futures import ThreadPoolExecutor
VERIF = os.path.dirname(os.path.dirname(os.path.abspath(__file__)))
ALL = [f"C{i:02d}" for i in range(1, 21)]

def sh(cmd, cwd=None):
    p = subprocess.run(cmd, shell=True, cwd=cwd, capture_output=True, text=True)
    return p.returncode, p.stdout + p.stderr

def one(name):
    d = os.path.join(VERIF, "seeded", name)
    wt = tempfile.mkdtemp(prefix="mx_", dir="/tmp"); os.rmdir(wt)
    res = {}
    try:
        rc, o = sh(f"git -C /repo worktree add -q --detach {wt} HEAD")
        rc, o = sh(f"git apply {d}/patch.diff", cwd=wt)
        if rc: return name, {"error": o[-200:]}
        props = sys.argv[2:] or ALL
        for p in props:
            rc, o = sh(f"/venv/bin/python -m sa.check {p} --no-write --root {wt}", cwd=VERIF)
            lines = [l.strip()[:300] for l in o.splitlines() if " rule=" in l or l.startswith("ANALYSIS-ERROR")]
            res[p] = {"exit": rc, "lines": lines[:4]}
    finally:
        sh(f"git -C /repo worktree remove --force {wt}")
    return name, res

names = sorted(n for n in os.listdir(os.path.join(VERIF, "seeded")) if os.path.exists(os.path.join(VERIF, "seeded", n, "patch.diff")))
if len(sys.argv) > 1 and sys.argv[1] != "all":
    names = [n for n in names if n.startswith(sys.argv[1])]
out = {}
with ThreadPoolExecutor(max_workers=8) as ex:
    for name, res in ex.map(one, names):
        out[name] = res
        own = name.split("-")[0]
        fired = {p: v["exit"] for p, v in res.items() if isinstance(v, dict) and v.get("exit")}
        print(name, "own=" + str(res.get(own, {}).get("exit")), "others:", {p: e for p, e in fired.items() if p != own}, flush=True)
json.dump(out, open(os.path.join(VERIF, "seeded", "results.json"), "w"), indent=1)
