#!/usr/bin/env python3
"""
Confirm a seeded change and run the checks against it.

  tools/eval_seeded.py confirm <dir-with-patch.diff-and-demo.py>     (uses a scratch worktree under /tmp, removed afterwards)
  tools/eval_seeded.py check   <patch.diff> [C07 ...]                 (applies to /repo, runs checks, ALWAYS reverts)
  tools/eval_seeded.py all                                             (every /verif/seeded/*/patch.diff against its own property + all others)

Nothing here is part of a registered check; it is the harness used to fill /verif/seeded and the table in DESIGN.md.
"""
from __future__ import annotations

import json
import os
import subprocess
import sys
import tempfile

REPO = "/repo"
VERIF = os.path.dirname(os.path.dirname(os.path.abspath(__file__)))
PY = "/venv/bin/python"


def sh(cmd, cwd=None, env=None, timeout=1200):
    p = subprocess.run(cmd, shell=True, cwd=cwd, env=env, capture_output=True, text=True, timeout=timeout)
    return p.returncode, (p.stdout + p.stderr)


def confirm(d: str) -> dict:
    d = os.path.abspath(d)
    patch, demo = os.path.join(d, "patch.diff"), os.path.join(d, "demo.py")
    wt = tempfile.mkdtemp(prefix="seedwt_", dir="/tmp")
    os.rmdir(wt)
    out = {"dir": d}
    try:
        rc, o = sh(f"git -C {REPO} worktree add -q --detach {wt} HEAD")
        assert rc == 0, o
        env = {**os.environ, "PYTHONPATH": wt}
        rc, o = sh(f"{PY} {demo}", cwd=wt, env=env, timeout=300)
        out["demo_without_patch"] = rc
        rc, o = sh(f"git apply {patch}", cwd=wt)
        out["applies"] = rc == 0
        if rc != 0:
            out["apply_error"] = o[-400:]
            return out
        rc, o = sh(f"git diff --stat", cwd=wt)
        out["files"] = [l.split("|")[0].strip() for l in o.splitlines() if "|" in l]
        rc, o = sh(f"{PY} -m pytest -q -p no:cacheprovider -n 8 --timeout=900 2>&1 | tail -3", cwd=wt)
        out["suite"] = o.strip().splitlines()[-1] if o.strip() else ""
        rc, o = sh(f"{PY} {demo}", cwd=wt, env=env, timeout=300)
        out["demo_with_patch"] = rc
        out["demo_output_tail"] = o[-300:]
        out["confirmed"] = out["demo_without_patch"] == 0 and out["demo_with_patch"] != 0 and "602 passed" in out["suite"] and " failed" not in out["suite"]
    finally:
        sh(f"git -C {REPO} worktree remove --force {wt}")
    return out


def check(patch: str, props: list[str]) -> dict:
    rc, o = sh(f"git -C {REPO} status --porcelain")
    assert not o.strip(), "refusing: /repo has uncommitted changes"
    res = {}
    rc, o = sh(f"git -C {REPO} apply {os.path.abspath(patch)}")
    if rc != 0:
        return {"error": "patch does not apply to /repo: " + o[-300:]}
    try:
        for p in props:
            rc, o = sh(f"{PY} -m sa.check {p} --no-write", cwd=VERIF)
            lines = [l for l in o.splitlines() if "rule=" in l or l.startswith("ANALYSIS-ERROR")]
            res[p] = {"exit": rc, "lines": [l.strip()[:400] for l in lines[:6]]}
    finally:
        sh(f"git -C {REPO} checkout -- .")
        rc, o = sh(f"git -C {REPO} status --porcelain")
        assert not o.strip(), "REPO NOT CLEAN AFTER REVERT: " + o
    return res


def main() -> None:
    cmd = sys.argv[1]
    allp = [f"C{i:02d}" for i in range(1, 21)]
    if cmd == "confirm":
        print(json.dumps(confirm(sys.argv[2]), indent=1))
    elif cmd == "check":
        props = sys.argv[3:] or allp
        print(json.dumps(check(sys.argv[2], props), indent=1))
    elif cmd == "all":
        base = os.path.join(VERIF, "seeded")
        table = {}
        for name in sorted(os.listdir(base)):
            pf = os.path.join(base, name, "patch.diff")
            if os.path.exists(pf):
                r = check(pf, allp)
                table[name] = {p: v["exit"] for p, v in r.items()} if "error" not in r else r
                own = json.load(open(os.path.join(base, name, "meta.json")))["property"]
                print(name, own, "->", {p: e for p, e in table[name].items() if e} if isinstance(table[name], dict) else table[name], flush=True)
        json.dump(table, open(os.path.join(base, "results.json"), "w"), indent=1)


if __name__ == "__main__":
    main()
