#!/usr/bin/env python3
"""tools/stage_campaign.py <worktree-prefix> <campaign> <first-m> <first-r> <outdir>
copy <prefix>Cnn/mutations/mK -> <outdir>/seeded/Cnn-m<first-m+K-1> and <prefix>Cnn/refactors/rK -> <outdir>/refactors/Cnn-r<first-r+K-1>"""
import json, os, shutil, sys
prefix, camp, fm, fr, out = sys.argv[1], int(sys.argv[2]), int(sys.argv[3]), int(sys.argv[4]), sys.argv[5]
for i in range(1, 21):
    pid = f"C{i:02d}"
    wt = f"{prefix}{pid}"
    for kind, first, sub in (("mutations", fm, "seeded"), ("refactors", fr, "refactors")):
        base = os.path.join(wt, kind)
        if not os.path.isdir(base):
            continue
        for k, name in enumerate(sorted(os.listdir(base), key=lambda s: int(s[1:]) if s[1:].isdigit() else 99)):
            src = os.path.join(base, name)
            if not os.path.exists(os.path.join(src, "patch.diff")):
                continue
            dst = os.path.join(out, sub, f"{pid}-{'m' if sub == 'seeded' else 'r'}{first + k}")
            if os.path.exists(dst):
                continue
            os.makedirs(os.path.dirname(dst), exist_ok=True)
            shutil.copytree(src, dst)
            if sub == "seeded":
                mp = os.path.join(dst, "meta.json")
                try:
                    m = json.load(open(mp))
                except Exception:
                    m = {"property": pid, "summary": "(agent wrote no meta.json)"}
                m["campaign"] = camp
                json.dump(m, open(mp, "w"), indent=1)
            print("staged", dst)
