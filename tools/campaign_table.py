"""markdown table of one seeded campaign from seeded/*/meta.json:  python tools/campaign_table.py <campaign number>"""
import glob, json, os, re, sys

camp = int(sys.argv[1])
rows = []
for p in sorted(glob.glob(os.path.join(os.path.dirname(__file__), "..", "seeded", "C*-m*", "meta.json")),
                key=lambda s: [int(x) for x in re.findall(r"\d+", os.path.basename(os.path.dirname(s)))]):
    m = json.load(open(p))
    if m.get("campaign") != camp:
        continue
    name = os.path.basename(os.path.dirname(p))
    fr = m.get("first_run", {})
    own = {0: "missed", 1: "reported", 2: "exit 2"}.get(fr.get("own_exit"), str(fr.get("own_exit")))
    others = ",".join(sorted(k for k, v in (fr.get("others") or {}).items() if v == 1 or isinstance(v, list) or (isinstance(v, dict) and v.get("exit") == 1))) or "–"
    if m.get("detected_by_own_check"):
        cb = m.get("caught_by")
        if isinstance(cb, dict):
            cb = sorted(cb)
        now = ", ".join(re.sub(r"^C\d\d\.", "", r) for r in (cb or [])) or "reported"
    else:
        now = "not claimed: " + str(m.get("static_reach", ""))[:100].replace("|", "/") + "…"
    s = " ".join(m.get("summary", "").split())[:110].replace("|", "/")
    rows.append(f"| {name} | {s}… | {own} | {others} | {now} |")
print("| Change | What it does (agent's summary, truncated) | first run (own check) | first run: also reported by | now (own rules) |")
print("|---|---|---|---|---|")
print("\n".join(rows))
