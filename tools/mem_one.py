#!/usr/bin/env python3
"""tools/mem_one.py <patch.diff> C07 [C09 ...]  - run checks on an in-memory patched tree and print the findings"""
import io, os, sys
sys.path.insert(0, os.path.dirname(os.path.dirname(os.path.abspath(__file__))))
from contextlib import redirect_stdout
from sa.selftest import _apply
from sa.check import run_property
from sa.model import AnalysisError
ov, why = _apply("/repo", {"patch": sys.argv[1], "name": "x"})
if ov is None:
    print("cannot apply:", why); sys.exit(2)
W = int(os.environ.get("W", "420"))
for p in sys.argv[2:]:
    try:
        with redirect_stdout(io.StringIO()):
            code, ctx = run_property(p, "/repo", "quick", overrides=ov, write=False, quiet=True)
        print(p, "exit", code)
        for f in ctx.findings:
            print("   ", f.human()[:W])
    except AnalysisError as e:
        print(p, "exit 2", str(e)[:W])
    except Exception as e:  # noqa: BLE001
        import traceback
        print(p, "CRASH", type(e).__name__, e); traceback.print_exc(limit=-3)
