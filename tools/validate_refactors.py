#!/usr/bin/env python3
"""For every /verif/refactors/*/patch.diff: (A) the full suite passes with the patch (behaviour-preserving as far as the tests can tell);
(B) the suite still passes when the touched files are replaced by the output of the load-time normaliser (sa.localnames.recover),
i.e. the normalisation passes are behaviour-preserving on this corpus.  Scratch worktrees under /tmp, removed afterwards."""
import ast, json, os, subprocess, sys, tempfile
from concurrent.futures import ThreadPoolExecutor
VERIF = os.path.dirname(os.path.dirname(os.path.abspath(__file__)))
sys.path.insert(0, VERIF)
PY = "/venv/bin/python"

def sh(cmd, cwd=None):
    p = subprocess.run(cmd, shell=True, cwd=cwd, capture_output=True, text=True)
    return p.returncode, p.stdout + p.stderr

def suite(wt):
    rc, o = sh(f"{PY} -m pytest -q -p no:cacheprovider -n 4 --timeout=900 2>&1 | tail -1", cwd=wt)
    return o.strip()

def one(name):
    base = sys.argv[1] if len(sys.argv) > 1 else os.path.join(VERIF, "refactors")
    d = os.path.join(base, name)
    wt = tempfile.mkdtemp(prefix="rv_", dir="/tmp"); os.rmdir(wt)
    res = {}
    try:
        sh(f"git -C /repo worktree add -q --detach {wt} HEAD")
        rc, o = sh(f"git apply {d}/patch.diff", cwd=wt)
        if rc: return name, {"error": o[-200:]}
        res["suite_with_patch"] = suite(wt)
        rc, o = sh("git diff --name-only", cwd=wt)
        files = [f for f in o.split() if f.endswith(".py")]
        res["files"] = files
        rc, o = sh(f"{PY} {VERIF}/tools/dump_norm.py {wt} " + " ".join(files), cwd=VERIF)
        res["normaliser_rewrites"] = o.strip()[-200:]
        res["suite_normalised"] = suite(wt)
    finally:
        sh(f"git -C /repo worktree remove --force {wt}")
    json.dump(res, open(os.path.join(d, "meta.json"), "w"), indent=1)
    return name, res

base = sys.argv[1] if len(sys.argv) > 1 else os.path.join(VERIF, "refactors")
names = sorted(n for n in os.listdir(base) if os.path.exists(os.path.join(base, n, "patch.diff")))
with ThreadPoolExecutor(max_workers=int(os.environ.get("RV_WORKERS", "4"))) as ex:
    for name, res in ex.map(one, names):
        print(name, res.get("suite_with_patch"), "|", res.get("normaliser_rewrites"), "|", res.get("suite_normalised"), res.get("error", ""), flush=True)
