#!/usr/bin/env python3
"""False-alarm probe: every library module replaced (in memory) by ast.unparse(ast.parse(src)) - comments gone, all
formatting, quoting and parenthesisation changed, line numbers moved - must leave every check at exit 0."""
import ast, os, sys
sys.path.insert(0, os.path.dirname(os.path.dirname(os.path.abspath(__file__))))
from sa.check import run_property
from sa.model import AnalysisError
root = "/repo"
ov = {}
for d, _, fs in os.walk(os.path.join(root, "ipv8")):
    for f in fs:
        if f.endswith(".py"):
            p = os.path.join(d, f); rel = os.path.relpath(p, root)
            if "/test/" in rel: continue
            ov[rel] = ast.unparse(ast.parse(open(p, encoding="utf-8").read())) + "\n"
bad = 0
for i in range(1, 21):
    pid = f"C{i:02d}"
    try:
        code, ctx = run_property(pid, root, "quick", overrides=ov, write=False, quiet=True)
        n = len(ctx.findings)
    except AnalysisError as e:
        code, n = 2, str(e)[:200]
    print(pid, code, n)
    bad += code != 0
sys.exit(1 if bad else 0)
