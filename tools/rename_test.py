#!/usr/bin/env python3
"""False-alarm probe 2: every non-parameter local variable of every library function renamed (in memory) to v<k>_<orig-len>;
behaviour is unchanged, every check must stay at exit 0 (exit 2 = the rule depends on a local's spelling: to be repaired)."""
import ast, os, sys, symtable
sys.path.insert(0, os.path.dirname(os.path.dirname(os.path.abspath(__file__))))
from sa.check import run_property
from sa.model import AnalysisError

def tables(tab, out):
    out.setdefault((tab.get_name(), tab.get_lineno(), tab.get_type()), []).append(tab)
    for c in tab.get_children():
        tables(c, out)

class Renamer(ast.NodeTransformer):
    """scope-aware: keeps a stack of {name: new} maps; a nested scope that binds the name itself shadows it"""
    def __init__(self, tabs):
        self.tabs = tabs; self.stack = []; self.counter = 0
    def _tab(self, node, name):
        l = self.tabs.get((name, node.lineno, "function"))
        return l[0] if l and len(l) == 1 else None
    def _scope(self, node, name):
        tab = self._tab(node, name)
        if tab is None:
            # unknown scope: stop renaming below (conservative) by pushing a shadow-all marker
            self.stack.append(None); self.generic_visit(node); self.stack.pop(); return node
        m = {}
        shadow = set()
        for s in tab.get_symbols():
            if s.is_local() and not s.is_parameter() and not s.is_global() and not s.is_nonlocal() and not s.is_imported() \
                    and not s.is_namespace() and not s.get_name().startswith("_") and not s.get_name().startswith("."):
                self.counter += 1
                m[s.get_name()] = f"v{self.counter}x"
            elif s.is_local() or s.is_parameter():
                shadow.add(s.get_name())
        self.stack.append((m, shadow))
        self.generic_visit(node)
        self.stack.pop()
        return node
    def visit_FunctionDef(self, node): return self._scope(node, node.name)
    visit_AsyncFunctionDef = visit_FunctionDef
    def _light(self, node, bound):
        self.stack.append(({}, set(bound))); self.generic_visit(node); self.stack.pop(); return node
    def visit_Lambda(self, node):
        a = node.args
        return self._light(node, [x.arg for x in a.posonlyargs + a.args + a.kwonlyargs] + [x.arg for x in (a.vararg, a.kwarg) if x])
    def _comp(self, node):
        bound = [n.id for g in node.generators for n in ast.walk(g.target) if isinstance(n, ast.Name)]
        bound += [n.target.id for n in ast.walk(node) if isinstance(n, ast.NamedExpr)]
        return self._light(node, bound)
    visit_ListComp = visit_SetComp = visit_DictComp = visit_GeneratorExp = _comp
    def visit_ClassDef(self, node):
        self.stack.append(None); self.generic_visit(node); self.stack.pop(); return node
    def visit_Name(self, node):
        for fr in reversed(self.stack):
            if fr is None: return node
            m, shadow = fr
            if node.id in m:
                node.id = m[node.id]; return node
            if node.id in shadow: return node
        return node
    def visit_ExceptHandler(self, node):
        if node.name:
            for fr in reversed(self.stack):
                if fr is None: break
                if node.name in fr[0]: node.name = fr[0][node.name]; break
                if node.name in fr[1]: break
        self.generic_visit(node); return node

def transform(src, rel):
    tree = ast.parse(src)
    tabs = {}
    tables(symtable.symtable(src, rel, "exec"), tabs)
    # class-scope marker None stops renaming inside methods? no: methods get their own scope pushed after None
    r = Renamer(tabs)
    # visit_Name stops at None frames only when no inner frame matched, which is what we want for methods
    tree = r.visit(tree)
    out = ast.unparse(tree) + "\n"
    compile(out, rel, "exec")
    return out, r.counter

def main():
    root = "/repo"; ov = {}; total = 0
    only = sys.argv[1:] 
    for d, _, fs in os.walk(os.path.join(root, "ipv8")):
        for f in fs:
            if f.endswith(".py"):
                p = os.path.join(d, f); rel = os.path.relpath(p, root)
                if "/test/" in rel: continue
                ov[rel], n = transform(open(p, encoding="utf-8").read(), rel); total += n
    if "--dump" in only:
        out = only[only.index("--dump") + 1]
        for rel, s in ov.items():
            os.makedirs(os.path.dirname(os.path.join(out, rel)), exist_ok=True); open(os.path.join(out, rel), "w").write(s)
        print("dumped", len(ov)); return
    print("renamed locals:", total)
    bad = 0
    for i in range(1, 21):
        pid = f"C{i:02d}"
        if [o for o in only if o.startswith('C')] and pid not in only: continue
        try:
            code, ctx = run_property(pid, root, "quick", overrides=ov, write=False, quiet=True)
            det = "; ".join(sorted({f.rule + "@" + f.at for f in ctx.findings}))[:300]
            if "-v" in only:
                det = "\n   " + "\n   ".join(f.human()[:700] for f in ctx.findings)
        except AnalysisError as e:
            code, det = 2, str(e)[:300]
        except Exception as e:  # noqa: BLE001
            import traceback
            tb = traceback.extract_tb(e.__traceback__)[-1]
            code, det = 3, f"CRASH {type(e).__name__}: {e} at {os.path.basename(tb.filename)}:{tb.lineno}"
        print(pid, code, det); bad += code != 0
    sys.exit(1 if bad else 0)
main()
